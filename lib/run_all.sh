#!/bin/bash
# run every claimed check of one tier, one after the other (development helper, not registered)
cd /verif
tier=${1:-quick}
shift
props=${@:-$(cat lib/claimed.txt)}
for p in $props; do
  t0=$(date +%s)
  ./check $p --tier $tier > .build/logs/all-$p.$tier.out 2>&1
  rc=$?
  echo "$p $tier exit=$rc wall=$(( $(date +%s) - t0 ))s $(grep -c VIOLATION .build/logs/all-$p.$tier.out) violations" | tee -a .build/logs/all.$tier.summary
done
