#!/usr/bin/env python3
"""Regenerates /verif/MANIFEST.json from lib/specs.py (claimed checks) and lib/na.py (not applicable)."""
import json, os, subprocess, sys
ROOT = os.path.dirname(os.path.dirname(os.path.abspath(__file__)))
sys.path.insert(0, os.path.join(ROOT, "lib"))
import specs, na

hook_commits = subprocess.run(["git", "-C", "/repo", "log", "--format=%H %s"], capture_output=True, text=True).stdout.splitlines()
hook_commits = [l.split()[0] for l in hook_commits if l.split(" ", 1)[1].startswith("verif-hooks")]

checks = []
CLAIMED_ONLY = [l.strip() for l in open(os.path.join(ROOT, 'lib', 'claimed.txt')) if l.strip()]
for pid in sorted(specs.PROPS):
    if pid not in CLAIMED_ONLY:
        continue
    P = specs.PROPS[pid]
    checks.append(dict(
        property_id=pid,
        quick_cmd=f"./check {pid} --tier quick",
        thorough_cmd=f"./check {pid} --tier thorough",
        evidence_file=f"evidence/{pid}.json",
        replay_cmd_template=f"./check {pid} --replay {{path}}",
        engine="kani-cbmc",
        level_claimed=dict(category="model_checking", text=P["level_text"], design_ref=P.get("design_ref", "DESIGN.md §3")),
        level_note=P["level_note"],
        technique=P.get("technique", "bounded model checking of the real Rust code with Kani/CBMC (SAT), symbolic inputs, native replay of counterexamples"),
    ))
claimed = set(p for p in specs.PROPS if p in CLAIMED_ONLY)
m = dict(
    version=1,
    setup_cmd="./setup.sh",
    hooks=dict(
        guard="cargo feature `verif-hooks` of the cao-lang crate (off by default)",
        enable="the harness crate /verif/harness depends on cao-lang by path with features=[\"verif-hooks\"]; checks build /repo's working tree in place through that path dependency",
        baseline_off_cmd="cd /repo && cargo test --workspace --no-fail-fast --offline",
        source_commits=hook_commits,
        add_only=True,
    ),
    engines=[dict(name="kani-cbmc", path="/verif/harness", serves_properties=sorted(claimed),
                  kind_free_text="Kani 0.68 proof harnesses over kani::any() inputs, decided by CBMC 6.11 + CaDiCaL; driver /verif/lib/runner.py; counterexamples replayed natively by /verif/harness/src/bin/replay.rs")],
    checks=checks,
    notes="Every result is bounded (see evidence coverage.bounds / outside_claim); 'proof' is never claimed. Exit 2 = the machinery could not decide (timeout, OOM, build failure, non-reproducing counterexample).",
    not_applicable=[dict(property_id=k, reason=v) for k, v in sorted(na.NA.items()) if k not in claimed],
)
json.dump(m, open(os.path.join(ROOT, "MANIFEST.json"), "w"), indent=1)
print("claimed:", sorted(claimed)); print("n/a:", [x["property_id"] for x in m["not_applicable"]])
