"""Harness catalogue: which Kani proof harnesses decide which property at which tier."""

PROPS = {}


def H(mod, name, tier="quick", steps=1, bounds="", what="", **kw):
    d = dict(name=name, qual=f"{mod}::{name}", tier=tier, steps=steps, bounds=bounds, what=what)
    d.update(kw)
    return d


def select(prop, tier, seed=0):
    hs = PROPS[prop]["harnesses"]
    if tier == "quick":
        return [h for h in hs if h["tier"] == "quick"]
    return list(hs)


# --------------------------------------------------------------------------- C14
PROPS["C14"] = dict(
    functions=[
        "ValueStack::{new,push,pop,pop_n::<2>,pop_n::<3>,pop_w_offset,set,get,clear,clear_until,"
        "last,peek_last,iter,as_slice,len,is_empty,top_location}",
        "BoundedStack<Tracked>::{new,push,pop,last,last_mut,clear,iter,iter_backwards,len,"
        "is_empty,capacity,drop}",
    ],
    bounds="capacities 1..=5 (concrete per harness), histories of 3 (quick) to 5 (thorough) "
           "solver-chosen operations with solver-chosen arguments and values (nil / any i64)",
    outside="capacities > 5, histories > 5 operations, clear_until above the current height "
            "(excluded by the property's precondition), value kinds other than nil/integer "
            "(the stack never inspects a value)",
    explanation="Bounded model checking of the real ValueStack/BoundedStack code: every sequence "
                "of K operations (operation code, index, offset and value all symbolic) is compared "
                "step by step against a fixed-array bounded LIFO model written from the property "
                "text, including the contents of every slot, drop counts per element, and the "
                "capacity rule.",
    assumptions=[
        "Kani/CBMC model the dev profile (debug assertions and overflow checks on)",
        "clear_until is only called with index <= height (the property's precondition)",
        "system allocator never fails (Kani default)",
    ],
    level_text="Bounded model checking of the real ValueStack and BoundedStack<T> code: for capacities 1..=5 "
               "and every history of up to 3 (quick) / 5 (thorough) operations with solver-chosen operation "
               "codes, indices, offsets and values, the SAT solver shows the container agrees step by step "
               "with a bounded-LIFO model written from the property text (contents of every slot, capacity "
               "rule, nil for missing values, drop-exactly-once), or returns a history that is replayed "
               "against the native dev and release builds before being reported.",
    level_note="Trusted: Kani's translation of MIR and CBMC/CaDiCaL; the model in harness/src/c14.rs; bounds "
               "as stated (capacities and history lengths are concrete, larger ones are outside the claim).",
    design_ref="DESIGN.md §3 C14",
    cap=dict(quick=420, thorough=2400),
    harnesses=[
        H("c14", "c14_vs_cap1_k3", steps=3, bounds="ValueStack cap 1, 3 ops"),
        H("c14", "c14_vs_cap2_k3", steps=3, bounds="ValueStack cap 2, 3 ops"),
        H("c14", "c14_vs_cap3_k3", steps=3, bounds="ValueStack cap 3, 3 ops"),
        H("c14", "c14_vs_cap4_k3", steps=3, bounds="ValueStack cap 4, 3 ops"),
        H("c14", "c14_bs_cap1_k3", steps=3, bounds="BoundedStack<Tracked> cap 1, 3 ops"),
        H("c14", "c14_bs_cap2_k3", steps=3, bounds="BoundedStack<Tracked> cap 2, 3 ops"),
        H("c14", "c14_bs_cap2_k4", steps=4, bounds="BoundedStack<Tracked> cap 2, 4 ops"),
        H("c14", "c14_vs_cap4_k4", "thorough", steps=4, bounds="ValueStack cap 4, 4 ops"),
        H("c14", "c14_vs_cap3_k5", "thorough", steps=5, bounds="ValueStack cap 3, 5 ops"),
        H("c14", "c14_vs_cap4_k5", "thorough", steps=5, bounds="ValueStack cap 4, 5 ops"),
        H("c14", "c14_vs_cap5_k5", "thorough", steps=5, bounds="ValueStack cap 5, 5 ops"),
        H("c14", "c14_bs_cap3_k5", "thorough", steps=5, bounds="BoundedStack<Tracked> cap 3, 5 ops"),
        H("c14", "c14_bs_cap1_k5", "thorough", steps=5, bounds="BoundedStack<Tracked> cap 1, 5 ops"),
    ],
)

# --------------------------------------------------------------------------- C12
_GROW0 = {r"hash_map::CaoHashMap::<.*>::(grow|adjust_capacity)$": 0}
_GROW1 = {r"hash_map::CaoHashMap::<.*>::(grow|adjust_capacity)$": 1}


_HM_GROW = {1: 3, 3: 6, 4: 6, 6: 9, 8: 12, 9: 13}


def _cap_of(name):
    import re
    m = re.search(r"_c(\d+)", name)
    return int(m.group(1)) if m else 8


def _c12(name, tier="quick", nested=False, **kw):
    if nested:
        kw.update(heavy=True, timeout=3000)
    lim = dict(_GROW1 if nested else _GROW0)
    c = _cap_of(name)
    post = _HM_GROW.get(c, c) if ("grow" in name or "two_ops" in name or "drops_insert" in name
                                  or "drops_entry" in name) else c
    m = __import__("re").search(r"reserve_c(\d+)_(\d+)", name)
    if m:
        post = int(m.group(1)) + int(m.group(2))
    if "drops_reserve" in name:
        post = c + 1
    # the probe loop needs at most capacity iterations (+1 for the exit test)
    lim[r"hash_map::CaoHashMap::<.*>::find_ind::<.*>#0"] = max(post, c) + 1
    return H("c12", name, tier, limits=lim, **kw)



PROPS["C12"] = dict(
    functions=[
        "CaoHashMap<u8,u8,SysAllocator>::{with_capacity_in,default,insert,insert_with_hint,remove,"
        "remove_with_hint,get,get_with_hint,get_mut,get_with_hint_mut,contains,contains_with_hint,"
        "entry,Entry::or_insert_with,reserve,grow,adjust_capacity,find_ind,needs_grow,clear,clone,"
        "iter,iter_mut,len,is_empty,capacity,drop}",
        "CaoHashMap<u8,Tracked,SysAllocator> (drop accounting), CaoHashMap<u8,u8,FailAt> (failing allocator)",
        "hash_map::hash / CaoHasher::write for u8, u32, i64 keys",
    ],
    bounds="inductive step from an ARBITRARY valid bucket array (occupancy, keys, values solver-chosen; "
           "representation invariant assumed) at concrete capacities 1,3,4,6 (quick: 3,6) and 8,9 "
           "(thorough), one operation with solver-chosen arguments, invariant + abstract content "
           "re-established at the post-capacity (growth steps 1->3, 3->4->6 nested, 4->6, 6->9, 8->12, "
           "9->13); key type u8 through the real FNV hasher (collisions and wrap-around are solver-chosen); "
           "hash!=0 over all u8/u32/i64 keys",
    outside="capacities other than those listed (in particular > 12), key types other than u8/i64, "
            "allocators other than the system one and the failing test allocator; the step from "
            "'every step preserves the invariant' to 'every history' is the usual induction argument, "
            "made outside the solver",
    explanation="Inductive-step bounded model checking: instead of exploring operation histories the "
                "pre-state is an arbitrary bucket array satisfying the representation invariant (hash "
                "stored = hash(key), no duplicate key, every stored key reachable by the map's own probe "
                "sequence, load within the growth threshold); the SAT solver decides for every such state "
                "and every argument that one operation returns what a mathematical map returns, leaves "
                "all other keys untouched (a solver-chosen query key), keeps len == number of entries and "
                "re-establishes the invariant. Base case: a new map satisfies the invariant.",
    assumptions=[
        "representation invariant I1-I4 as stated in harness/src/c12.rs (pre-states are built through the verif_set_slot hook)",
        "load limit of reachable states mirrors needs_grow (count <= 0.7*capacity)",
        "Kani/CBMC model the dev profile; system allocator never fails except where the harness allocator is told to",
    ],
    level_text="Inductive-step bounded model checking of the real CaoHashMap code with Kani/CBMC: for each "
               "listed capacity, every bucket array satisfying the representation invariant and every "
               "argument, one insert/remove/get/get_mut/contains/entry/reserve/clear/clone/iter call behaves "
               "like a mathematical map and re-establishes the invariant (including across growth), each "
               "stored value is dropped exactly once, an allocation failure is an Err that loses nothing, "
               "and no u8/u32/i64 key hashes to the reserved value. Counterexamples are replayed natively "
               "(dev + release) before being reported.",
    level_note="Trusted: Kani/CBMC/CaDiCaL; the invariant and model in harness/src/c12.rs; the induction "
               "argument from single steps to histories; capacities are concrete and bounded as listed.",
    design_ref="DESIGN.md §3 C12",
    cap=dict(quick=600, thorough=3600),
    harnesses=[_c12(n, t, nested=nest, steps=st, bounds=b) for (n, t, nest, st, b) in [
        ("c12_base_new_c0", "quick", False, 1, "new map, requested capacity 0 (-> 1) and Default"),
        ("c12_base_new_c4", "quick", False, 1, "new map, capacity 4"),
        ("c12_base_new_c8", "thorough", False, 1, "new map, capacity 8"),
        ("c12_insert_c1_grow", "thorough", False, 1, "capacity 1 (empty) + insert: growth 1->3"),
        ("c12_insert_c3", "quick", False, 1, "any valid state at capacity 3 + insert(any,any), no growth"),
        ("c12_insert_c3_grow", "thorough", True, 1, "capacity 3 at threshold + insert of a new key: growth 3->4->6 (nested)"),
        ("c12_insert_c4", "quick", False, 1, "capacity 4 + insert, no growth"),
        ("c12_insert_c4_grow", "quick", False, 1, "capacity 4 at threshold + insert: growth 4->6"),
        ("c12_insert_c6", "thorough", False, 1, "capacity 6 + insert, no growth"),
        ("c12_insert_c6_grow", "thorough", False, 1, "capacity 6 at threshold + insert: growth 6->9"),
        ("c12_insert_c8", "thorough", False, 1, "capacity 8 + insert, no growth"),
        ("c12_insert_c8_grow", "thorough", False, 1, "capacity 8 at threshold + insert: growth 8->12"),
        ("c12_remove_c3", "quick", False, 1, "capacity 3 + remove(any)"),
        ("c12_remove_c4", "quick", False, 1, "capacity 4 + remove(any)"),
        ("c12_remove_c6", "thorough", False, 1, "capacity 6 + remove(any)"),
        ("c12_remove_c8", "thorough", False, 1, "capacity 8 + remove(any)"),
        ("c12_lookup_c3", "thorough", False, 1, "capacity 3: get/contains/get_mut"),
        ("c12_lookup_c4", "quick", False, 1, "capacity 4: get/contains/get_mut"),
        ("c12_lookup_c8", "thorough", False, 1, "capacity 8: get/contains/get_mut"),
        ("c12_entry_c1_grow", "thorough", False, 1, "capacity 1 + entry: growth 1->3"),
        ("c12_entry_c3", "thorough", False, 1, "capacity 3 + entry().or_insert_with, no growth"),
        ("c12_entry_c3_grow", "thorough", True, 1, "capacity 3 at threshold + entry: growth 3->4"),
        ("c12_entry_c4", "quick", False, 1, "capacity 4 + entry, no growth"),
        ("c12_entry_c4_grow", "quick", False, 1, "capacity 4 at threshold + entry: growth 4->6"),
        ("c12_entry_c6_grow", "thorough", False, 1, "capacity 6 at threshold + entry: growth 6->9"),
        ("c12_entry_c8", "thorough", False, 1, "capacity 8 + entry, no growth"),
        ("c12_entry_c8_grow", "thorough", False, 1, "capacity 8 at threshold + entry: growth 8->12"),
        ("c12_clear_c4", "quick", False, 2, "capacity 4: clear then insert"),
        ("c12_clone_c3", "thorough", False, 1, "capacity 3: clone"),
        ("c12_clone_c4", "quick", False, 1, "capacity 4: clone"),
        ("c12_reserve_c4_1", "quick", False, 1, "capacity 4: reserve(1)"),
        ("c12_reserve_c3_3", "thorough", False, 1, "capacity 3: reserve(3)"),
        ("c12_iter_c3", "thorough", False, 1, "capacity 3: iter/iter_mut"),
        ("c12_iter_c4", "quick", False, 1, "capacity 4: iter/iter_mut"),
        ("c12_two_ops_c3", "thorough", True, 2, "capacity 3: insert;remove / remove;insert"),
        ("c12_two_ops_c4", "thorough", False, 2, "capacity 4: insert;remove / remove;insert"),
        ("c12_drops_insert_c3", "thorough", True, 1, "capacity 3, Tracked values: insert then drop(map)"),
        ("c12_drops_remove_c3", "quick", False, 1, "capacity 3, Tracked values: remove then drop(map)"),
        ("c12_drops_clear_c3", "quick", False, 1, "capacity 3, Tracked values: clear then drop(map)"),
        ("c12_drops_entry_c3", "thorough", True, 1, "capacity 3, Tracked values: entry then drop(map)"),
        ("c12_drops_reserve_c3", "thorough", False, 1, "capacity 3, Tracked values: reserve then drop(map)"),
        ("c12_drops_insert_c4", "quick", False, 1, "capacity 4, Tracked values: insert"),
        ("c12_drops_remove_c4", "quick", False, 1, "capacity 4, Tracked values: remove"),
        ("c12_allocfail_insert_c4", "quick", False, 1, "any valid state at capacity 4 at the threshold, the growth allocation fails: insert"),
        ("c12_allocok_insert_c4", "thorough", False, 1, "same with the counting allocator not failing"),
        ("c12_allocfail_entry_c4", "quick", False, 1, "same, entry"),
        ("c12_allocfail_reserve_c4", "quick", False, 1, "same, reserve(1)"),
        ("c12_allocfail_new", "quick", False, 1, "with_capacity_in(0..=8) with an allocator that fails at once"),
        ("c12_hash_nonzero_u8", "quick", False, 1, "all u8 keys: hash != reserved 0"),
        ("c12_hash_nonzero_u32", "quick", False, 1, "all u32 keys"),
        ("c12_hash_nonzero_i64", "quick", False, 1, "all i64 keys"),
        ("c12_i64_key_roundtrip", "thorough", False, 3, "all i64 keys: insert/get/remove on an empty map"),
    ]
    ],
)


# --------------------------------------------------------------------------- C13
def _c13(name, tier, **kw):
    c = _cap_of(name) if "_c" in name else 4
    post = c
    if "grow" in name or "fill" in name:
        post = 2 * c
    if "reserve_c4_4" in name:
        post = 16
    if "reserve_c4_3" in name:
        post = 8
    if "initcap" in name:
        post = 16
    return H("c13", name, tier, limits={r"handle_table::HandleTable::<.*>::find_ind#0": post + 1}, **kw)


PROPS["C13"] = dict(
    functions=[
        "HandleTable<u8,SysAllocator>::{with_capacity,insert,_insert,remove,get,get_mut,contains,entry,"
        "Entry::or_insert_with,reserve,grow,adjust_capacity,pad_pot,find_ind,clear,clone,iter,iter_mut,"
        "Index<Handle>,len,is_empty,capacity,drop}",
        "HandleTable<Tracked,SysAllocator> (drop accounting)",
    ],
    bounds="inductive step from an ARBITRARY valid slot array (occupancy, handles = any non-zero u32, values "
           "solver-chosen; representation invariant assumed) at capacities 4 (quick) and 8 (thorough), one "
           "operation with solver-chosen arguments, invariant + content re-established (growth 4->8, 8->16); "
           "requested initial capacities 0,1,2,3,5,6,7,8,9 followed by one solver-chosen operation; public-API "
           "fills of 3 and 5 distinct solver-chosen handles through insert and through entry; every probe loop "
           "bounded by capacity+1 with unwinding assertions (a failure is non-termination)",
    outside="capacities > 16, allocators other than the system one, handles produced by the FNV helpers "
            "(Handle::from_bytes etc. may themselves produce the reserved 0)",
    explanation="Inductive-step bounded model checking of the real HandleTable code (same scheme as C12), plus "
                "termination by unwinding assertions: a masked linear probe that has not returned after "
                "capacity steps has revisited its start.",
    assumptions=[
        "representation invariant as stated in harness/src/c13.rs (pre-states built through the verif_set_slot hook)",
        "handles are non-zero (the property's domain)",
        "Kani/CBMC model the dev profile; system allocator never fails",
    ],
    level_text="Inductive-step bounded model checking of the real HandleTable code with Kani/CBMC at capacities 4 "
               "and 8 over all non-zero u32 handles: every operation behaves like a key-to-value map, re-establishes "
               "the representation invariant (also across growth), terminates (unwinding assertions), drops each "
               "value exactly once, and every requested initial capacity 0..=9 yields a usable table.",
    level_note="Trusted: Kani/CBMC/CaDiCaL; the invariant and model in harness/src/c13.rs; the induction argument; "
               "capacities bounded as listed.",
    design_ref="DESIGN.md §3 C13",
    cap=dict(quick=600, thorough=3600),
    harnesses=[_c13(n, t, steps=st, bounds=b, **kw) for (n, t, st, b, kw) in [
        ("c13_insert_c4", "quick", 1, "any valid state at capacity 4 + insert(any non-zero handle), below threshold", {}),
        ("c13_insert_c4_grow", "quick", 1, "capacity 4 at threshold + insert: growth 4->8", {}),
        ("c13_insert_zero_c4", "quick", 1, "capacity 4 + insert(handle 0) rejected", {}),
        ("c13_remove_c4", "quick", 1, "capacity 4 + remove(any)", {}),
        ("c13_lookup_c4", "quick", 1, "capacity 4: get/contains/index/get_mut", {}),
        ("c13_entry_c4", "quick", 1, "capacity 4 + entry().or_insert_with, below threshold", {}),
        ("c13_entry_c4_grow", "quick", 1, "capacity 4 at threshold + entry of a new handle", {}),
        ("c13_clear_c4", "quick", 2, "capacity 4: clear then insert", {}),
        ("c13_clone_c4", "quick", 1, "capacity 4: clone", {}),
        ("c13_reserve_c4_3_m6", "thorough", 1, "capacity 4, slots 1,2 occupied: reserve(3) -> growth to 8", {}),
        ("c13_reserve_c4_2_noop", "thorough", 1, "capacity 4, slots 0,2 occupied: reserve(2) is a no-op", {}),
        ("c13_iter_c4", "quick", 1, "capacity 4: iter/iter_mut", {}),
        ("c13_initcap_0", "quick", 1, "with_capacity(0) + one solver-chosen operation", {}),
        ("c13_initcap_1", "thorough", 1, "with_capacity(1) + one operation", {}),
        ("c13_initcap_2", "thorough", 1, "with_capacity(2) + one operation", {}),
        ("c13_initcap_3", "quick", 1, "with_capacity(3) + one operation", {}),
        ("c13_initcap_5", "thorough", 1, "with_capacity(5) + one operation", {}),
        ("c13_initcap_6", "thorough", 1, "with_capacity(6) + one operation", {}),
        ("c13_initcap_7", "thorough", 1, "with_capacity(7) + one operation", {}),
        ("c13_initcap_8", "thorough", 1, "with_capacity(8) + one operation", {}),
        ("c13_initcap_9", "thorough", 1, "with_capacity(9) + one operation", {}),
        ("c13_fill_entry_c4_n5", "thorough", 5, "5 distinct handles through entry into capacity 4", {"hang_is_violation": True, "heavy": True, "timeout": 3000}),
        ("c13_fill_insert_c4_n5", "thorough", 5, "5 distinct handles through insert into capacity 4", {"heavy": True, "timeout": 3000}),
        ("c13_drops_insert_c4", "quick", 1, "capacity 4, Tracked values: insert then drop(table)", {}),
        ("c13_drops_remove_c4", "quick", 1, "capacity 4, Tracked values: remove", {}),
        ("c13_drops_clear_c4", "thorough", 1, "capacity 4, Tracked values: clear", {}),
        ("c13_drops_entry_c4", "thorough", 1, "capacity 4, Tracked values: entry", {}),
        ("c13_insert_c8", "thorough", 1, "capacity 8 + insert", {}),
        ("c13_insert_c8_grow", "thorough", 1, "capacity 8 at threshold + insert: growth 8->16", {}),
        ("c13_remove_c8", "thorough", 1, "capacity 8 + remove", {}),
        ("c13_lookup_c8", "thorough", 1, "capacity 8 lookups", {}),
        ("c13_entry_c8", "thorough", 1, "capacity 8 + entry", {}),
        ("c13_entry_c8_grow", "thorough", 1, "capacity 8 at threshold + entry", {}),
        ("c13_clone_c8", "thorough", 1, "capacity 8 clone", {}),
        ("c13_reserve_c4_4_m9", "thorough", 1, "capacity 4, slots 0,3 occupied: reserve(4) -> growth to 16", {}),
        ("c13_iter_c8", "thorough", 1, "capacity 8 iter", {}),
    ]],
)

# --------------------------------------------------------------------------- C19
_C19_PAIRS = [("nil_nil", "quick"), ("nil_int", "quick"), ("nil_real", "quick"), ("int_nil", "quick"),
              ("int_int", "quick"), ("int_real", "quick"), ("real_nil", "quick"), ("real_int", "quick"),
              ("real_real", "quick")]
PROPS["C19"] = dict(
    functions=[
        "<Value as PartialEq>::eq, <Value as PartialOrd>::partial_cmp (lt/le/gt/ge), <Value as Hash>::hash, "
        "Value::as_bool, Value::try_cast_match, TryFrom<Value> for i64 / f64",
        "<CaoLangObject as PartialEq/PartialOrd/Hash> for strings, CaoLangObject::len, RuntimeData::init_string",
        "hash_map::hash (CaoHasher) over Value",
    ],
    bounds="one harness per kind pair (9) / triple (9) over {nil, integer, real}; payloads fully "
           "symbolic: all i64, all non-NaN f64; when an "
           "integer is compared with a real, |i| <= 2^53 (beyond that i as f64 rounds; stated, not asserted)",
    outside="NaN, signed zero for the hash law (documented exceptions); strings, tables and function values (harnesses over runtime-allocated strings of length <= 2 exist in harness/src/c19.rs but did not close within 20 minutes and are not part of the claim); integers beyond 2^53 in mixed integer/real comparisons",
    explanation="Per kind tuple the SAT solver decides, over all payloads, the equivalence laws, "
                "equal => equal hash, equal => neither less nor greater, asymmetry, agreement of < with the "
                "numeric order the statement defines (nil as 0, a string as its length), truthiness, and that "
                "none of these operations can panic.",
    assumptions=[
        "non-NaN reals",
        "Kani/CBMC model the dev profile",
    ],
    level_text="Bounded model checking with Kani/CBMC of the real Value comparison, ordering, hashing and "
               "truthiness code: for each of 9 kind pairs and 9 kind triples over nil/integer/real and ALL payload values (64-bit "
               "integers, non-NaN doubles) the algebraic laws of the property are decided by the "
               "SAT solver; counterexamples are replayed natively.",
    level_note="Trusted: Kani/CBMC/CaDiCaL incl. its IEEE-754 encoding; reference order in harness/src/c19.rs; "
               "kinds enumerated, not symbolic; tables excluded.",
    design_ref="DESIGN.md §3 C19",
    cap=dict(quick=600, thorough=2400),
    harnesses=[H("c19", f"c19_pair_{p}", t, bounds=f"kind pair {p}, all payloads") for (p, t) in _C19_PAIRS]
    + [H("c19", f"c19_triple_{t}", "quick" if t in ("int", "real") else "thorough", bounds=f"kind triple {t}: transitivity of ==")
       for t in ["int", "real", "int_real_int", "nil_int_real"]]
    + [H("c19", f"c19_order_trans_{t}", "quick" if t in ("int",) else "thorough", bounds=f"kind triple {t}: transitivity of <")
       for t in ["int", "real", "int_real_int", "real_int_real", "nil_int_real"]],
)

# --------------------------------------------------------------------------- C16
PROPS["C16"] = dict(
    functions=[
        "Card::{num_children,iter_children,iter_children_mut,get_child,get_child_mut,insert_child,"
        "remove_child,replace_child} for all 43 card kinds",
        "Module::{get_card,get_card_mut,walk_cards,insert_card,remove_card,replace_card,swap_cards}, "
        "CardIndex::{from_slice,push_subindex,pop_subindex,cmp}",
    ],
    bounds="card level: every card kind (43), list-like kinds (composite, closure, array, call, native call, "
           "dynamic call) at arities 0..=3, child index solver-chosen in 0..=6; module level: one concrete "
           "two-function skeleton nesting if-else > composite > add and call > not to depth 3, CardIndex "
           "solver-chosen (function 0..=2, 1..=3 sub-indices each 0..=3), pairs of such indices for swap",
    outside="trees deeper than 3, more than 3 list children, other skeleton shapes, the wasm bindings, "
            "sequences of more than two edits",
    explanation="For a solver-chosen child index / CardIndex the SAT solver decides that child count, both "
                "iterators and both lookups agree with the documented child order, that insert/remove/replace/"
                "swap change exactly the addressed card (checked with a pre-order fingerprint computed from the "
                "public fields, independent of the API under test) and that failed edits are no-ops.",
    assumptions=[
        "on a fixed-arity card insert_child replaces the child at the index (documented in the source); "
        "'remove undoes insert' is asserted for list-like parents",
        "Kani/CBMC model the dev profile",
    ],
    level_text="Bounded model checking with Kani/CBMC of the real Card child API (all 43 kinds, symbolic child index) "
               "and of Module get/walk/insert/remove/replace/swap on a depth-3 skeleton with symbolic CardIndex "
               "values, against a tree-edit model and a structural fingerprint.",
    level_note="Trusted: Kani/CBMC/CaDiCaL; the documented child order encoded in harness/src/c16.rs; shapes are "
               "concrete (kinds, arities, skeleton), indices symbolic.",
    design_ref="DESIGN.md §3 C16",
    cap=dict(quick=600, thorough=2400),
    harnesses=[H("c16", n, t, bounds=b) for (n, t, b) in [
        ("c16_children_binary", "quick", "17 binary kinds: count/iter/get agree, index symbolic"),
        ("c16_children_unary_ternary_misc", "quick", "unary, ternary, set-var, repeat, for-each kinds"),
        ("c16_children_leaves", "thorough", "10 leaf kinds"),
        ("c16_children_lists_a0", "thorough", "6 list-like kinds, arity 0"),
        ("c16_children_lists_a1", "thorough", "6 list-like kinds, arity 1"),
        ("c16_children_lists_a3", "quick", "6 list-like kinds, arity 3"),
        ("c16_replace_binary", "thorough", "replace_child on binary kinds"),
        ("c16_replace_misc", "quick", "replace_child on unary..leaf kinds"),
        ("c16_replace_lists_a2", "quick", "replace_child on list-like kinds, arity 2"),
        ("c16_insert_remove_binary", "thorough", "insert_child (= replace) on binary kinds"),
        ("c16_insert_remove_misc", "quick", "insert_child on unary..leaf kinds"),
        ("c16_insert_remove_lists_a0", "thorough", "insert then remove on list-like kinds, arity 0"),
        ("c16_insert_remove_lists_a2", "quick", "insert then remove on list-like kinds, arity 2"),
        ("c16_remove_binary", "thorough", "remove_child on binary kinds"),
        ("c16_remove_misc", "quick", "remove_child on unary..leaf kinds"),
        ("c16_remove_lists_a1", "thorough", "remove_child on list-like kinds, arity 1"),
        ("c16_remove_lists_a3", "quick", "remove_child on list-like kinds, arity 3"),
        ("c16_module_get", "quick", "get_card/get_card_mut resolve any index like the reference navigation"),
        ("c16_module_walk", "quick", "walk_cards: every card once, index resolves to it"),
        ("c16_module_replace", "quick", "replace_card twice = identity; invalid index is a no-op"),
        ("c16_module_insert_remove", "quick", "insert_card then remove_card = identity; invalid index is a no-op"),
        ("c16_module_remove", "quick", "remove_card returns the addressed card; invalid index is a no-op"),
        ("c16_module_swap", "quick", "swap twice = identity; ancestor/invalid swaps fail and are no-ops"),
    ]],
)
