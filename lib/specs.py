"""Harness catalogue: which Kani proof harnesses decide which property at which tier."""

PROPS = {}


def H(mod, name, tier="quick", steps=1, bounds="", what="", **kw):
    d = dict(name=name, qual=f"{mod}::{name}", tier=tier, steps=steps, bounds=bounds, what=what)
    d.update(kw)
    return d


def select(prop, tier, seed=0):
    hs = PROPS[prop]["harnesses"]
    if tier == "quick":
        return [h for h in hs if h["tier"] == "quick"]
    return list(hs)


# --------------------------------------------------------------------------- C14
PROPS["C14"] = dict(
    functions=[
        "ValueStack::{new,push,pop,pop_n::<2>,pop_n::<3>,pop_w_offset,set,get,clear,clear_until,"
        "last,peek_last,iter,as_slice,len,is_empty,top_location}",
        "BoundedStack<Tracked>::{new,push,pop,last,last_mut,clear,iter,iter_backwards,len,"
        "is_empty,capacity,drop}",
    ],
    bounds="capacities 1..=5 (concrete per harness), histories of 3 (quick) to 5 (thorough) "
           "solver-chosen operations with solver-chosen arguments and values (nil / any i64)",
    outside="capacities > 5, histories > 5 operations, clear_until above the current height "
            "(excluded by the property's precondition), value kinds other than nil/integer "
            "(the stack never inspects a value)",
    explanation="Bounded model checking of the real ValueStack/BoundedStack code: every sequence "
                "of K operations (operation code, index, offset and value all symbolic) is compared "
                "step by step against a fixed-array bounded LIFO model written from the property "
                "text, including the contents of every slot, drop counts per element, and the "
                "capacity rule.",
    assumptions=[
        "Kani/CBMC model the dev profile (debug assertions and overflow checks on)",
        "clear_until is only called with index <= height (the property's precondition)",
        "system allocator never fails (Kani default)",
    ],
    level_text="Bounded model checking of the real ValueStack and BoundedStack<T> code: for capacities 1..=5 "
               "and every history of up to 3 (quick) / 5 (thorough) operations with solver-chosen operation "
               "codes, indices, offsets and values, the SAT solver shows the container agrees step by step "
               "with a bounded-LIFO model written from the property text (contents of every slot, capacity "
               "rule, nil for missing values, drop-exactly-once), or returns a history that is replayed "
               "against the native dev and release builds before being reported.",
    level_note="Trusted: Kani's translation of MIR and CBMC/CaDiCaL; the model in harness/src/c14.rs; bounds "
               "as stated (capacities and history lengths are concrete, larger ones are outside the claim).",
    design_ref="DESIGN.md §3 C14",
    cap=dict(quick=420, thorough=2400),
    harnesses=[
        H("c14", "c14_vs_cap1_k3", steps=3, bounds="ValueStack cap 1, 3 ops"),
        H("c14", "c14_vs_cap2_k3", steps=3, bounds="ValueStack cap 2, 3 ops"),
        H("c14", "c14_vs_cap3_k3", steps=3, bounds="ValueStack cap 3, 3 ops"),
        H("c14", "c14_vs_cap4_k3", steps=3, bounds="ValueStack cap 4, 3 ops"),
        H("c14", "c14_bs_cap1_k3", steps=3, bounds="BoundedStack<Tracked> cap 1, 3 ops"),
        H("c14", "c14_bs_cap2_k3", steps=3, bounds="BoundedStack<Tracked> cap 2, 3 ops"),
        H("c14", "c14_bs_cap2_k4", steps=4, bounds="BoundedStack<Tracked> cap 2, 4 ops"),
        H("c14", "c14_vs_cap4_k4", "thorough", steps=4, bounds="ValueStack cap 4, 4 ops"),
        H("c14", "c14_vs_cap3_k5", "thorough", steps=5, bounds="ValueStack cap 3, 5 ops"),
        H("c14", "c14_vs_cap4_k5", "thorough", steps=5, bounds="ValueStack cap 4, 5 ops"),
        H("c14", "c14_vs_cap5_k5", "thorough", steps=5, bounds="ValueStack cap 5, 5 ops"),
        H("c14", "c14_bs_cap3_k5", "thorough", steps=5, bounds="BoundedStack<Tracked> cap 3, 5 ops"),
        H("c14", "c14_bs_cap1_k5", "thorough", steps=5, bounds="BoundedStack<Tracked> cap 1, 5 ops"),
    ],
)
