"""Harness catalogue: which Kani proof harnesses decide which property at which tier."""

PROPS = {}


# applied to every harness: the error payload type nests through TaskFailure { error: Box<payload> };
# without a recursion limit its drop glue is unrolled to the global bound wherever a Result is dropped
DEFAULT_LIMITS = {
    r"^std::ptr::drop_(in_place|glue)::<(std::boxed::Box<)?cao_lang::prelude::ExecutionErrorPayload>?>$": 1,
    r"^std::ptr::drop_(in_place|glue)::<(std::boxed::Box<)?cao_lang::prelude::ExecutionError>?>$": 1,
}


def H(mod, name, tier="quick", steps=1, bounds="", what="", **kw):
    d = dict(name=name, qual=f"{mod}::{name}", tier=tier, steps=steps, bounds=bounds, what=what)
    d.update(kw)
    lim = dict(DEFAULT_LIMITS)
    lim.update(d.get("limits") or {})
    d["limits"] = lim
    return d


def select(prop, tier, seed=0):
    hs = PROPS[prop]["harnesses"]
    # tier "x": written and kept in the harness crate, but it did not close within the caps on this
    # machine (or was never confirmed to); not part of any registered command
    if tier == "quick":
        return [h for h in hs if h["tier"] == "quick"]
    return [h for h in hs if h["tier"] in ("quick", "thorough")]


# compiler unit harnesses: Compiler::new() builds a default program (16-slot tables are zero-filled)
_CX_LIM = {
    r"SpecFill<cao_lang::prelude::Handle>>::spec_fill$#0": 18,
    # every error path clones the current namespace into the error's trace (empty in these harnesses)
    r"^<smallvec::SmallVec<.*> as std::iter::Extend<.*>>::extend::<.*>$#*": 1,
    r"^std::ptr::drop_(in_place|glue)::<\[std::boxed::Box<str>\]>$#*": 1,
    r"hash_map::CaoHashMap::<.*>::(grow|adjust_capacity)$": 0,
}


def _cx(name, tier="quick", bounds="", **kw):
    lim = dict(_CX_LIM)
    lim.update(kw.pop("limits", {}))
    kw.setdefault("stubbing", True)
    # the compiler keeps its locals in ArrayVec<Local, 255> (6 KB of MaybeUninit each) inside a Vec:
    # with CBMC's default field-sensitivity limit (64) every access goes through the array theory
    # and the propositional reduction runs out of memory; with the limit above the array size the
    # cells are individual SSA symbols and constant addresses fold
    kw.setdefault("cbmc_args", ["--max-field-sensitivity-array-size", "32768"])
    kw.setdefault("timeout", 1500)
    return H("c08", name, tier, bounds=bounds, limits=lim, **kw)


# --------------------------------------------------------------------------- C14
PROPS["C14"] = dict(
    functions=[
        "ValueStack::{new,push,pop,pop_n::<2>,pop_n::<3>,pop_w_offset,set,get,clear,clear_until,"
        "last,peek_last,iter,as_slice,len,is_empty,top_location}",
        "BoundedStack<Tracked>::{new,push,pop,last,last_mut,clear,iter,iter_backwards,len,"
        "is_empty,capacity,drop}",
    ],
    bounds="capacities 1..=5 (concrete per harness), histories of 3 (quick) to 5 (thorough) "
           "solver-chosen operations with solver-chosen arguments and values (nil / any i64)",
    outside="capacities > 5, histories > 5 operations, clear_until above the current height "
            "(excluded by the property's precondition), value kinds other than nil/integer "
            "(the stack never inspects a value)",
    explanation="Bounded model checking of the real ValueStack/BoundedStack code: every sequence "
                "of K operations (operation code, index, offset and value all symbolic) is compared "
                "step by step against a fixed-array bounded LIFO model written from the property "
                "text, including the contents of every slot, drop counts per element, and the "
                "capacity rule.",
    assumptions=[
        "Kani/CBMC model the dev profile (debug assertions and overflow checks on)",
        "clear_until is only called with index <= height (the property's precondition)",
        "system allocator never fails (Kani default)",
    ],
    level_text="Bounded model checking of the real ValueStack and BoundedStack<T> code: for capacities 1..=5 "
               "and every history of up to 3 (quick) / 5 (thorough) operations with solver-chosen operation "
               "codes, indices, offsets and values, the SAT solver shows the container agrees step by step "
               "with a bounded-LIFO model written from the property text (contents of every slot, capacity "
               "rule, nil for missing values, drop-exactly-once), or returns a history that is replayed "
               "against the native dev and release builds before being reported.",
    level_note="Trusted: Kani's translation of MIR and CBMC/CaDiCaL; the model in harness/src/c14.rs; bounds "
               "as stated (capacities and history lengths are concrete, larger ones are outside the claim).",
    design_ref="DESIGN.md §3 C14",
    cap=dict(quick=420, thorough=2400),
    harnesses=[
        H("c14", "c14_vs_cap1_k3", steps=3, bounds="ValueStack cap 1, 3 ops"),
        H("c14", "c14_vs_cap2_k3", steps=3, bounds="ValueStack cap 2, 3 ops"),
        H("c14", "c14_vs_cap3_k3", steps=3, bounds="ValueStack cap 3, 3 ops"),
        H("c14", "c14_vs_cap4_k3", steps=3, bounds="ValueStack cap 4, 3 ops"),
        H("c14", "c14_bs_cap1_k3", steps=3, bounds="BoundedStack<Tracked> cap 1, 3 ops"),
        H("c14", "c14_bs_cap2_k3", steps=3, bounds="BoundedStack<Tracked> cap 2, 3 ops"),
        H("c14", "c14_bs_cap2_k4", steps=4, bounds="BoundedStack<Tracked> cap 2, 4 ops"),
        H("c14", "c14_vs_cap4_k4", "thorough", steps=4, bounds="ValueStack cap 4, 4 ops"),
        H("c14", "c14_vs_cap3_k5", "thorough", steps=5, bounds="ValueStack cap 3, 5 ops"),
        H("c14", "c14_vs_cap4_k5", "thorough", steps=5, bounds="ValueStack cap 4, 5 ops"),
        H("c14", "c14_vs_cap5_k5", "thorough", steps=5, bounds="ValueStack cap 5, 5 ops"),
        H("c14", "c14_bs_cap3_k5", "thorough", steps=5, bounds="BoundedStack<Tracked> cap 3, 5 ops"),
        H("c14", "c14_bs_cap1_k5", "thorough", steps=5, bounds="BoundedStack<Tracked> cap 1, 5 ops"),
    ],
)

# --------------------------------------------------------------------------- C12
_GROW0 = {r"hash_map::CaoHashMap::<.*>::(grow|adjust_capacity)$": 0}
_GROW1 = {r"hash_map::CaoHashMap::<.*>::(grow|adjust_capacity)$": 1}


_HM_GROW = {1: 3, 3: 6, 4: 6, 6: 9, 8: 12, 9: 13}


def _cap_of(name):
    import re
    m = re.search(r"_c(\d+)", name)
    return int(m.group(1)) if m else 8


def _c12(name, tier="quick", nested=False, **kw):
    if nested:
        kw.update(heavy=True, timeout=3000)
    lim = dict(_GROW1 if nested else _GROW0)
    c = _cap_of(name)
    post = _HM_GROW.get(c, c) if ("grow" in name or "two_ops" in name or "drops_insert" in name
                                  or "drops_entry" in name) else c
    m = __import__("re").search(r"reserve_c(\d+)_(\d+)", name)
    if m:
        post = int(m.group(1)) + int(m.group(2))
    if "drops_reserve" in name:
        post = c + 1
    # the probe loop needs at most capacity iterations (+1 for the exit test)
    lim[r"hash_map::CaoHashMap::<.*>::find_ind::<.*>#0"] = max(post, c) + 1
    return H("c12", name, tier, limits=lim, **kw)



PROPS["C12"] = dict(
    functions=[
        "CaoHashMap<u8,u8,SysAllocator>::{with_capacity_in,default,insert,insert_with_hint,remove,"
        "remove_with_hint,get,get_with_hint,get_mut,get_with_hint_mut,contains,contains_with_hint,"
        "entry,Entry::or_insert_with,reserve,grow,adjust_capacity,find_ind,needs_grow,clear,clone,"
        "iter,iter_mut,len,is_empty,capacity,drop}",
        "CaoHashMap<u8,Tracked,SysAllocator> (drop accounting), CaoHashMap<u8,u8,FailAt> (failing allocator)",
        "hash_map::hash / CaoHasher::write for u8, u32, i64 keys",
    ],
    bounds="inductive step from an ARBITRARY valid bucket array (occupancy, keys, values solver-chosen; "
           "representation invariant assumed) at concrete capacities 1,3,4,6 (quick: 3,6) and 8,9 "
           "(thorough), one operation with solver-chosen arguments, invariant + abstract content "
           "re-established at the post-capacity (growth steps 1->3, 3->4->6 nested, 4->6, 6->9, 8->12, "
           "9->13); key type u8 through the real FNV hasher (collisions and wrap-around are solver-chosen); "
           "hash!=0 over all u8/u32/i64 keys",
    outside="capacities other than those listed (in particular > 12), key types other than u8/i64, "
            "allocators other than the system one and the failing test allocator; the step from "
            "'every step preserves the invariant' to 'every history' is the usual induction argument, "
            "made outside the solver",
    explanation="Inductive-step bounded model checking: instead of exploring operation histories the "
                "pre-state is an arbitrary bucket array satisfying the representation invariant (hash "
                "stored = hash(key), no duplicate key, every stored key reachable by the map's own probe "
                "sequence, load within the growth threshold); the SAT solver decides for every such state "
                "and every argument that one operation returns what a mathematical map returns, leaves "
                "all other keys untouched (a solver-chosen query key), keeps len == number of entries and "
                "re-establishes the invariant. Base case: a new map satisfies the invariant.",
    assumptions=[
        "representation invariant I1-I4 as stated in harness/src/c12.rs (pre-states are built through the verif_set_slot hook)",
        "load limit of reachable states mirrors needs_grow (count <= 0.7*capacity)",
        "Kani/CBMC model the dev profile; system allocator never fails except where the harness allocator is told to",
    ],
    level_text="Inductive-step bounded model checking of the real CaoHashMap code with Kani/CBMC: for each "
               "listed capacity, every bucket array satisfying the representation invariant and every "
               "argument, one insert/remove/get/get_mut/contains/entry/reserve/clear/clone/iter call behaves "
               "like a mathematical map and re-establishes the invariant (including across growth), each "
               "stored value is dropped exactly once, an allocation failure is an Err that loses nothing, "
               "and no u8/u32/i64 key hashes to the reserved value. Counterexamples are replayed natively "
               "(dev + release) before being reported.",
    level_note="Trusted: Kani/CBMC/CaDiCaL; the invariant and model in harness/src/c12.rs; the induction "
               "argument from single steps to histories; capacities are concrete and bounded as listed.",
    design_ref="DESIGN.md §3 C12",
    cap=dict(quick=600, thorough=3600),
    harnesses=[_c12(n, t, nested=nest, steps=st, bounds=b) for (n, t, nest, st, b) in [
        ("c12_base_new_c0", "quick", False, 1, "new map, requested capacity 0 (-> 1) and Default"),
        ("c12_base_new_c4", "quick", False, 1, "new map, capacity 4"),
        ("c12_base_new_c8", "thorough", False, 1, "new map, capacity 8"),
        ("c12_insert_c1_grow", "thorough", False, 1, "capacity 1 (empty) + insert: growth 1->3"),
        ("c12_insert_c3", "quick", False, 1, "any valid state at capacity 3 + insert(any,any), no growth"),
        ("c12_insert_c3_grow", "thorough", True, 1, "capacity 3 at threshold + insert of a new key: growth 3->4->6 (nested)"),
        ("c12_insert_c4", "quick", False, 1, "capacity 4 + insert, no growth"),
        ("c12_insert_c4_grow", "quick", False, 1, "capacity 4 at threshold + insert: growth 4->6"),
        ("c12_insert_c6", "thorough", False, 1, "capacity 6 + insert, no growth"),
        ("c12_insert_c6_grow", "thorough", False, 1, "capacity 6 at threshold + insert: growth 6->9"),
        ("c12_insert_c8", "thorough", False, 1, "capacity 8 + insert, no growth"),
        ("c12_insert_c8_grow", "thorough", False, 1, "capacity 8 at threshold + insert: growth 8->12"),
        ("c12_remove_c3", "quick", False, 1, "capacity 3 + remove(any)"),
        ("c12_remove_c4", "quick", False, 1, "capacity 4 + remove(any)"),
        ("c12_remove_c6", "thorough", False, 1, "capacity 6 + remove(any)"),
        ("c12_remove_c8", "thorough", False, 1, "capacity 8 + remove(any)"),
        ("c12_lookup_c3", "thorough", False, 1, "capacity 3: get/contains/get_mut"),
        ("c12_lookup_c4", "quick", False, 1, "capacity 4: get/contains/get_mut"),
        ("c12_lookup_c8", "thorough", False, 1, "capacity 8: get/contains/get_mut"),
        ("c12_entry_c1_grow", "thorough", False, 1, "capacity 1 + entry: growth 1->3"),
        ("c12_entry_c3", "thorough", False, 1, "capacity 3 + entry().or_insert_with, no growth"),
        ("c12_entry_c3_grow", "thorough", True, 1, "capacity 3 at threshold + entry: growth 3->4"),
        ("c12_entry_c4", "quick", False, 1, "capacity 4 + entry, no growth"),
        ("c12_entry_c4_grow", "quick", False, 1, "capacity 4 at threshold + entry: growth 4->6"),
        ("c12_entry_c6_grow", "thorough", False, 1, "capacity 6 at threshold + entry: growth 6->9"),
        ("c12_entry_c8", "thorough", False, 1, "capacity 8 + entry, no growth"),
        ("c12_entry_c8_grow", "thorough", False, 1, "capacity 8 at threshold + entry: growth 8->12"),
        ("c12_clear_c4", "quick", False, 2, "capacity 4: clear then insert"),
        ("c12_clone_c3", "thorough", False, 1, "capacity 3: clone"),
        ("c12_clone_c4", "quick", False, 1, "capacity 4: clone"),
        ("c12_reserve_c4_1", "quick", False, 1, "capacity 4: reserve(1)"),
        ("c12_reserve_c3_3", "thorough", False, 1, "capacity 3: reserve(3)"),
        ("c12_iter_c3", "thorough", False, 1, "capacity 3: iter/iter_mut"),
        ("c12_iter_c4", "quick", False, 1, "capacity 4: iter/iter_mut"),
        ("c12_two_ops_c3", "thorough", True, 2, "capacity 3: insert;remove / remove;insert"),
        ("c12_two_ops_c4", "thorough", False, 2, "capacity 4: insert;remove / remove;insert"),
        ("c12_drops_insert_c3", "thorough", True, 1, "capacity 3, Tracked values: insert then drop(map)"),
        ("c12_drops_remove_c3", "quick", False, 1, "capacity 3, Tracked values: remove then drop(map)"),
        ("c12_drops_clear_c3", "quick", False, 1, "capacity 3, Tracked values: clear then drop(map)"),
        ("c12_drops_entry_c3", "thorough", True, 1, "capacity 3, Tracked values: entry then drop(map)"),
        ("c12_drops_reserve_c3", "thorough", False, 1, "capacity 3, Tracked values: reserve then drop(map)"),
        ("c12_drops_insert_c4", "quick", False, 1, "capacity 4, Tracked values: insert"),
        ("c12_drops_remove_c4", "quick", False, 1, "capacity 4, Tracked values: remove"),
        ("c12_allocfail_insert_c4", "quick", False, 1, "any valid state at capacity 4 at the threshold, the growth allocation fails: insert"),
        ("c12_allocok_insert_c4", "thorough", False, 1, "same with the counting allocator not failing"),
        ("c12_allocfail_entry_c4", "quick", False, 1, "same, entry"),
        ("c12_allocfail_reserve_c4", "quick", False, 1, "same, reserve(1)"),
        ("c12_allocfail_new", "quick", False, 1, "with_capacity_in(0..=8) with an allocator that fails at once"),
        ("c12_hash_nonzero_u8", "quick", False, 1, "all u8 keys: hash != reserved 0"),
        ("c12_hash_nonzero_u32", "quick", False, 1, "all u32 keys"),
        ("c12_hash_nonzero_i64", "quick", False, 1, "all i64 keys"),
        ("c12_i64_key_roundtrip", "thorough", False, 3, "all i64 keys: insert/get/remove on an empty map"),
    ]
    ],
)


# --------------------------------------------------------------------------- C13
def _c13(name, tier, **kw):
    c = _cap_of(name) if "_c" in name else 4
    post = c
    if "grow" in name or "fill" in name:
        post = 2 * c
    if "reserve_c4_4" in name:
        post = 16
    if "reserve_c4_3" in name:
        post = 8
    if "initcap" in name:
        post = 16
    return H("c13", name, tier, limits={r"handle_table::HandleTable::<.*>::find_ind#0": post + 1}, **kw)


PROPS["C13"] = dict(
    functions=[
        "HandleTable<u8,SysAllocator>::{with_capacity,insert,_insert,remove,get,get_mut,contains,entry,"
        "Entry::or_insert_with,reserve,grow,adjust_capacity,pad_pot,find_ind,clear,clone,iter,iter_mut,"
        "Index<Handle>,len,is_empty,capacity,drop}",
        "HandleTable<Tracked,SysAllocator> (drop accounting)",
    ],
    bounds="inductive step from an ARBITRARY valid slot array (occupancy, handles = any non-zero u32, values "
           "solver-chosen; representation invariant assumed) at capacities 4 (quick) and 8 (thorough), one "
           "operation with solver-chosen arguments, invariant + content re-established (growth 4->8, 8->16); "
           "requested initial capacities 0,1,2,3,5,6,7,8,9 followed by one solver-chosen operation; public-API "
           "fills of 3 and 5 distinct solver-chosen handles through insert and through entry; every probe loop "
           "bounded by capacity+1 with unwinding assertions (a failure is non-termination)",
    outside="capacities > 16, allocators other than the system one, handles produced by the FNV helpers "
            "(Handle::from_bytes etc. may themselves produce the reserved 0)",
    explanation="Inductive-step bounded model checking of the real HandleTable code (same scheme as C12), plus "
                "termination by unwinding assertions: a masked linear probe that has not returned after "
                "capacity steps has revisited its start.",
    assumptions=[
        "representation invariant as stated in harness/src/c13.rs (pre-states built through the verif_set_slot hook)",
        "handles are non-zero (the property's domain)",
        "Kani/CBMC model the dev profile; system allocator never fails",
    ],
    level_text="Inductive-step bounded model checking of the real HandleTable code with Kani/CBMC at capacities 4 "
               "and 8 over all non-zero u32 handles: every operation behaves like a key-to-value map, re-establishes "
               "the representation invariant (also across growth), terminates (unwinding assertions), drops each "
               "value exactly once, and every requested initial capacity 0..=9 yields a usable table.",
    level_note="Trusted: Kani/CBMC/CaDiCaL; the invariant and model in harness/src/c13.rs; the induction argument; "
               "capacities bounded as listed.",
    design_ref="DESIGN.md §3 C13",
    cap=dict(quick=600, thorough=3600), mem_gb=26, jobs=4,
    harnesses=[_c13(n, t, steps=st, bounds=b, **kw) for (n, t, st, b, kw) in [
        ("c13_insert_c4", "quick", 1, "any valid state at capacity 4 + insert(any non-zero handle), below threshold", {}),
        ("c13_insert_c4_grow", "quick", 1, "capacity 4 at threshold + insert: growth 4->8", {}),
        ("c13_insert_zero_c4", "quick", 1, "capacity 4 + insert(handle 0) rejected", {}),
        ("c13_remove_c4", "quick", 1, "capacity 4 + remove(any)", {}),
        ("c13_lookup_c4", "quick", 1, "capacity 4: get/contains/index/get_mut", {}),
        ("c13_entry_c4", "quick", 1, "capacity 4 + entry().or_insert_with, below threshold", {}),
        ("c13_entry_c4_grow", "quick", 1, "capacity 4 at threshold + entry of a new handle", {}),
        ("c13_clear_c4", "quick", 2, "capacity 4: clear then insert", {}),
        ("c13_clone_c4", "quick", 1, "capacity 4: clone", {}),
        ("c13_clone_c8_n4", "quick", 1, "capacity 8 with exactly four entries (slots 0,2,5,6): clone is a faithful map with a free slot, lookups terminate", {}),
        ("c13_clone_c4_n2", "thorough", 1, "capacity 4 with exactly two entries (slots 1,2): clone", {}),
        ("c13_reserve_c4_3_m6", "thorough", 1, "capacity 4, slots 1,2 occupied: reserve(3) -> growth to 8", {}),
        ("c13_reserve_c4_2_noop", "thorough", 1, "capacity 4, slots 0,2 occupied: reserve(2) is a no-op", {}),
        ("c13_iter_c4", "quick", 1, "capacity 4: iter/iter_mut", {}),
        ("c13_initcap_0", "quick", 1, "with_capacity(0) + one solver-chosen operation", {}),
        ("c13_initcap_1", "thorough", 1, "with_capacity(1) + one operation", {}),
        ("c13_initcap_2", "thorough", 1, "with_capacity(2) + one operation", {}),
        ("c13_initcap_3", "quick", 1, "with_capacity(3) + one operation", {}),
        ("c13_initcap_5", "thorough", 1, "with_capacity(5) + one operation", {}),
        ("c13_initcap_6", "thorough", 1, "with_capacity(6) + one operation", {}),
        ("c13_initcap_7", "thorough", 1, "with_capacity(7) + one operation", {}),
        ("c13_initcap_8", "thorough", 1, "with_capacity(8) + one operation", {}),
        ("c13_initcap_9", "thorough", 1, "with_capacity(9) + one operation", {}),
        ("c13_fill_entry_c4_n5", "thorough", 5, "5 distinct handles through entry into capacity 4", {"hang_is_violation": True, "heavy": True, "timeout": 3000}),
        ("c13_fill_insert_c4_n5", "thorough", 5, "5 distinct handles through insert into capacity 4", {"heavy": True, "timeout": 3000}),
        ("c13_drops_insert_c4", "quick", 1, "capacity 4, Tracked values: insert then drop(table)", {}),
        ("c13_drops_remove_c4", "quick", 1, "capacity 4, Tracked values: remove", {}),
        ("c13_drops_clear_c4", "thorough", 1, "capacity 4, Tracked values: clear", {}),
        ("c13_drops_entry_c4", "thorough", 1, "capacity 4, Tracked values: entry", {}),
        ("c13_insert_c8", "thorough", 1, "capacity 8 + insert", {}),
        ("c13_insert_c8_grow", "thorough", 1, "capacity 8 at threshold + insert: growth 8->16", {}),
        ("c13_remove_c8", "thorough", 1, "capacity 8 + remove", {}),
        ("c13_lookup_c8", "thorough", 1, "capacity 8 lookups", {}),
        ("c13_entry_c8", "thorough", 1, "capacity 8 + entry", {}),
        ("c13_entry_c8_grow", "thorough", 1, "capacity 8 at threshold + entry", {}),
        ("c13_clone_c8", "thorough", 1, "capacity 8 clone", {}),
        ("c13_reserve_c4_4_m9", "thorough", 1, "capacity 4, slots 0,3 occupied: reserve(4) -> growth to 16", {}),
        ("c13_iter_c8", "thorough", 1, "capacity 8 iter", {}),
    ]],
)

# --------------------------------------------------------------------------- C19
_C19_PAIRS = [("nil_nil", "quick"), ("nil_int", "quick"), ("nil_real", "quick"), ("int_nil", "quick"),
              ("int_int", "quick"), ("int_real", "quick"), ("real_nil", "quick"), ("real_int", "quick"),
              ("real_real", "quick")]
PROPS["C19"] = dict(
    functions=[
        "<Value as PartialEq>::eq, <Value as PartialOrd>::partial_cmp (lt/le/gt/ge), <Value as Hash>::hash, "
        "Value::as_bool, Value::try_cast_match, TryFrom<Value> for i64 / f64",
        "<CaoLangObject as PartialEq/PartialOrd/Hash> for strings, CaoLangObject::len, RuntimeData::init_string",
        "hash_map::hash (CaoHasher) over Value",
    ],
    bounds="one harness per kind pair (9) / triple (9) over {nil, integer, real}; payloads fully "
           "symbolic: all i64, all non-NaN f64; when an "
           "integer is compared with a real, |i| <= 2^53 (beyond that i as f64 rounds; stated, not asserted)",
    outside="NaN, signed zero for the hash law (documented exceptions); strings, tables and function values (harnesses over runtime-allocated strings of length <= 2 exist in harness/src/c19.rs but did not close within 20 minutes and are not part of the claim); integers beyond 2^53 in mixed integer/real comparisons",
    explanation="Per kind tuple the SAT solver decides, over all payloads, the equivalence laws, "
                "equal => equal hash, equal => neither less nor greater, asymmetry, agreement of < with the "
                "numeric order the statement defines (nil as 0, a string as its length), truthiness, and that "
                "none of these operations can panic.",
    assumptions=[
        "non-NaN reals",
        "Kani/CBMC model the dev profile",
    ],
    level_text="Bounded model checking with Kani/CBMC of the real Value comparison, ordering, hashing and "
               "truthiness code: for each of 9 kind pairs and 9 kind triples over nil/integer/real and ALL payload values (64-bit "
               "integers, non-NaN doubles) the algebraic laws of the property are decided by the "
               "SAT solver; counterexamples are replayed natively.",
    level_note="Trusted: Kani/CBMC/CaDiCaL incl. its IEEE-754 encoding; reference order in harness/src/c19.rs; "
               "kinds enumerated, not symbolic; tables excluded.",
    design_ref="DESIGN.md §3 C19",
    cap=dict(quick=600, thorough=2400),
    harnesses=[H("c19", f"c19_pair_{p}", t, bounds=f"kind pair {p}, all payloads") for (p, t) in _C19_PAIRS]
    + [H("c19", f"c19_triple_{t}", "quick" if t in ("int", "real") else "thorough", bounds=f"kind triple {t}: transitivity of ==")
       for t in ["int", "real", "int_real_int", "nil_int_real"]]
    + [H("c19", f"c19_order_trans_{t}", "quick" if t in ("int",) else "thorough", bounds=f"kind triple {t}: transitivity of <")
       for t in ["int", "real", "int_real_int", "real_int_real", "nil_int_real"]],
)

# --------------------------------------------------------------------------- C16
PROPS["C16"] = dict(
    functions=[
        "Card::{num_children,iter_children,iter_children_mut,get_child,get_child_mut,insert_child,"
        "remove_child,replace_child} for all 43 card kinds",
        "Module::{get_card,get_card_mut,walk_cards,insert_card,remove_card,replace_card,swap_cards}, "
        "CardIndex::{from_slice,push_subindex,pop_subindex,cmp}",
    ],
    bounds="card level: every card kind (43), list-like kinds (composite, closure, array, call, native call, "
           "dynamic call) at arities 0..=3, child index solver-chosen in 0..=6; module level: one concrete "
           "two-function skeleton nesting if-else > composite > add and call > not to depth 3, CardIndex "
           "with concrete function/depth per harness and solver-chosen sub-indices each 0..=3, pairs of such indices for swap",
    outside="trees deeper than 3, more than 3 list children, other skeleton shapes, the wasm bindings, "
            "sequences of more than two edits",
    explanation="For a solver-chosen child index / CardIndex the SAT solver decides that child count, both "
                "iterators and both lookups agree with the documented child order, that insert/remove/replace/"
                "swap change exactly the addressed card (checked with a pre-order fingerprint computed from the "
                "public fields, independent of the API under test) and that failed edits are no-ops.",
    assumptions=[
        "on a fixed-arity card insert_child replaces the child at the index (documented in the source); "
        "'remove undoes insert' is asserted for list-like parents",
        "Kani/CBMC model the dev profile",
    ],
    level_text="Bounded model checking with Kani/CBMC of the real Card child API (all 43 kinds, symbolic child index) "
               "and of Module get/walk/insert/remove/replace/swap on a depth-3 skeleton with symbolic CardIndex "
               "values, against a tree-edit model and a structural fingerprint; remove_child per list-like kind succeeds exactly "
               "for the enumerated children (symbolic index). Most edit harnesses are tier x (did not close).",
    level_note="Trusted: Kani/CBMC/CaDiCaL; the documented child order encoded in harness/src/c16.rs; shapes are "
               "concrete (kinds, arities, skeleton), indices symbolic.",
    design_ref="DESIGN.md §3 C16",
    cap=dict(quick=600, thorough=2400),
    harnesses=[H("c16", n, t, bounds=b, limits={
        # drop glue of the recursive card type: cards in the harnesses nest at most 4 deep
        r"^std::ptr::drop_in_place::<cao_lang::prelude::(Card|CardBody)>$": (4 if "module" in n else 2),
        r"^std::ptr::drop_in_place::<(std::boxed::Box|std::vec::Vec)<.*cao_lang::prelude::Card.*>>$": (4 if "module" in n else 2),
    }) for (n, t, b) in [
        ("c16_children_bin_a", "quick", "Add..LessOrEq: count/iter/get agree, child index symbolic"),
        ("c16_children_bin_b", "thorough", "Equals..GetProperty"),
        ("c16_children_bin_c", "quick", "IfTrue, IfFalse, While, Get, AppendTable"),
        ("c16_children_unary", "quick", "Not, Return, Len, PopTable"),
        ("c16_children_ternary_setvar", "quick", "IfElse, SetProperty, SetGlobalVar, SetVar"),
        ("c16_children_repeat_foreach", "quick", "Repeat, ForEach"),
        ("c16_children_leaves", "thorough", "10 leaf kinds"),
        ("c16_children_lists_a0", "thorough", "6 list-like kinds, arity 0"),
        ("c16_children_lists_a1", "thorough", "6 list-like kinds, arity 1"),
        ("c16_children_lists_a3", "quick", "Composite, Closure, Array, Call, CallNative, DynamicCall at arity 3"),
        ("c16_replace_bin_c", "x", "replace_child twice on IfTrue..AppendTable"),
        ("c16_replace_unary", "x", "replace_child twice on unary kinds"),
        ("c16_replace_ternary_setvar", "x", "replace_child twice on IfElse, SetProperty, SetGlobalVar, SetVar"),
        ("c16_replace_repeat_foreach", "x", "replace_child twice on Repeat, ForEach"),
        ("c16_replace_lists_a2_x", "x", "replace_child twice on Composite, Closure, Array (arity 2)"),
        ("c16_replace_lists_a2_y", "x", "replace_child twice on Call, CallNative, DynamicCall (arity 2)"),
        ("c16_insert_bin_a", "x", "insert_child (= replace) on Add..LessOrEq"),
        ("c16_insert_unary", "x", "insert_child on unary kinds"),
        ("c16_insert_ternary_setvar", "x", "insert_child on ternary / set-var kinds"),
        ("c16_insert_repeat_foreach", "x", "insert_child on Repeat, ForEach"),
        ("c16_insert_leaves", "x", "insert_child on leaf kinds fails"),
        ("c16_insert_lists_a0", "x", "insert then remove on list-like kinds, arity 0"),
        ("c16_insert_lists_a2_x", "x", "insert then remove on Composite, Closure, Array (arity 2)"),
        ("c16_insert_lists_a2_y", "x", "insert then remove on Call, CallNative, DynamicCall (arity 2)"),
        ("c16_remove_bin_b", "x", "remove_child on Equals..GetProperty"),
        ("c16_remove_unary", "x", "remove_child on unary kinds"),
        ("c16_remove_ternary_setvar", "x", "remove_child on ternary / set-var kinds"),
        ("c16_remove_repeat_foreach", "quick", "remove_child on Repeat, ForEach"),
        ("c16_remove_bounds_k37_a2", "quick", "remove_child succeeds exactly for enumerated children (kind 37, arity 2)"),
        ("c16_remove_bounds_k38_a2", "quick", "remove_child succeeds exactly for enumerated children (kind 38, arity 2)"),
        ("c16_remove_bounds_k39_a2", "quick", "remove_child succeeds exactly for enumerated children (kind 39, arity 2)"),
        ("c16_remove_bounds_k40_a2", "quick", "remove_child succeeds exactly for enumerated children (kind 40, arity 2)"),
        ("c16_remove_bounds_k41_a2", "quick", "remove_child succeeds exactly for enumerated children (kind 41, arity 2)"),
        ("c16_remove_bounds_k42_a2", "quick", "remove_child succeeds exactly for enumerated children (kind 42, arity 2)"),
        ("c16_remove_lists_a1", "x", "remove_child on list-like kinds, arity 1"),
        ("c16_remove_lists_a3_x", "x", "remove_child on Composite, Closure, Array (arity 3)"),
        ("c16_remove_lists_a3_y", "x", "remove_child on Call, CallNative, DynamicCall (arity 3)"),
        ("c16_module_get_f0_d1", "thorough", "get_card: function 0, depth 1, sub-index symbolic"),
        ("c16_module_get_f0_d2", "quick", "get_card: function 0, depth 2"),
        ("c16_module_get_f0_d3", "quick", "get_card: function 0, depth 3"),
        ("c16_module_get_f1_d3", "thorough", "get_card: function 1, depth 3"),
        ("c16_module_get_f2_d1", "thorough", "get_card: missing function"),
        ("c16_module_walk", "x", "walk_cards: every card once, index resolves to it"),
        ("c16_module_replace_f0_d2", "x", "replace_card twice = identity (f0, depth 2)"),
        ("c16_module_replace_f0_d3", "x", "replace_card twice = identity (f0, depth 3)"),
        ("c16_module_replace_f1_d2", "x", "replace_card twice = identity (f1, depth 2)"),
        ("c16_module_insert_f0_d1", "x", "insert_card then remove_card = identity (top level)"),
        ("c16_module_insert_f0_d3", "x", "insert_card/remove_card inside a composite / add (f0, depth 3)"),
        ("c16_module_insert_f1_d2", "x", "insert_card/remove_card in call arguments (f1, depth 2)"),
        ("c16_module_insert_f1_d3", "x", "insert_card under Not (f1, depth 3)"),
        ("c16_module_remove_f0_d2", "x", "remove_card (f0, depth 2)"),
        ("c16_module_remove_f0_d3", "x", "remove_card (f0, depth 3)"),
        ("c16_module_remove_f1_d1", "x", "remove_card (f1, top level)"),
        ("c16_module_swap_self_f0d1", "x", "swap_cards(i, i) for any top-level index of f0: no-op"),
        ("c16_module_swap_self_f0d2", "x", "swap_cards(i, i) for any depth-2 index of f0: no-op"),
        ("c16_module_swap_f0d1_f0d1", "x", "swap two top-level cards of f0 (incl. a card with itself)"),
        ("c16_module_swap_f0d2_f0d3", "x", "swap depth-2 with depth-3 card (incl. ancestor/descendant)"),
        ("c16_module_swap_f0d2_f1d2", "x", "swap across functions"),
        ("c16_module_swap_f0d1_f0d2", "x", "swap top-level with its own child / a sibling's child"),
    ]],
)

# --------------------------------------------------------------------------- VM-level common
# Recursions that CBMC would otherwise unroll to the global bound: table equality/hash/order
# re-enter the Value impls, error payloads nest, hash-map growth re-enters insert.
_VM_REC = {
    r"^<cao_lang::prelude::Value as std::cmp::PartialEq>::eq$": 0,
    r"^<cao_lang::prelude::Value as std::cmp::PartialOrd>::partial_cmp$": 0,
    r"^<cao_lang::prelude::Value as std::hash::Hash>::hash::<.*>$": 0,
    # error payloads nest through TaskFailure { error: Box<payload> }: one level is enough
    r"^std::ptr::drop_(in_place|glue)::<(std::boxed::Box<)?cao_lang::prelude::ExecutionErrorPayload>?>$": 1,
    r"^std::ptr::drop_(in_place|glue)::<(std::boxed::Box<)?cao_lang::prelude::ExecutionError>?>$": 1,
    r"hash_map::CaoHashMap::<.*>::(grow|adjust_capacity)$": 0,
}


def _vm(mod, name, tier="quick", dispatches=6, **kw):
    lim = dict(_VM_REC)
    # error paths: every instruction arm inlines the trace-building closure (one lookup + clone per
    # call frame); object comparison/hash/debug code is only reachable when an operand is an object
    lim[r"vm::Vm::<.*>::_run::\{closure#0\}$#*"] = kw.pop("frames", 4) + 1
    lim[r"^<smallvec::SmallVec<.*> as std::iter::Extend<.*>>::extend::<.*>$#*"] = 2
    lim[r"^<smallvec::SmallVec<.*> as std::clone::Clone>::clone"] = 0
    if not kw.pop("objects", False):
        lim[r"^<cao_lang::vm::runtime::cao_lang_object::CaoLangObject as std::(cmp::PartialEq|cmp::PartialOrd|hash::Hash|fmt::Debug)>::\w+(::<.*>)?$#*"] = 1
        lim[r"^<cao_lang::prelude::CaoLangTable as std::fmt::Debug>::fmt$#*"] = 1
    if not kw.get("gc_loops", False):
        # instruction arms the program does not contain are still explored when CBMC cannot fold the
        # opcode; their collection / table-teardown loops are cut to one iteration (an unwinding
        # assertion fails if a harness really collects or frees a table)
        lim[r"vm::runtime::RuntimeData::gc$#*"] = 1
        lim[r"hash_map::clear_arrays::<.*>$#*"] = 1
        lim[r"vm::runtime::RuntimeData::clear_objects$#*"] = 1
    if kw.pop("gc_loops", False):
        # heaps of at most three objects and three roots
        lim[r"vm::runtime::RuntimeData::gc$#*"] = 5
        lim[r"hash_map::clear_arrays::<.*>$#*"] = 1
    lim[r"vm::Vm::<.*>::_run$#0"] = dispatches + 1
    # HandleTable::default() zero-fills 16 handles
    lim[r"SpecFill<cao_lang::prelude::Handle>>::spec_fill$#0"] = 18
    lim.update(kw.pop("limits", {}))
    kw.setdefault("stubbing", True)
    # CBMC's array theory (uninterpreted functions + Ackermann constraints) runs out of memory on the
    # interpreter's heap arrays; flattening them closes the same harnesses in 1-2 minutes
    kw.setdefault("cbmc_args", ["--arrays-uf-never"])
    return H(mod, name, tier, limits=lim, steps=dispatches, **kw)


# --------------------------------------------------------------------------- C01
PROPS["C01"] = dict(
    functions=[
        "<Value as Add/Sub/Mul/Div>, Value::try_cast_match, TryFrom<Value> for i64/f64",
        "Vm::_run dispatch of ScalarInt, ScalarNil, Add, Sub, Mul, Equals, NotEquals, Less, LessOrEq, And, Or, Xor, "
        "Not, Pop, CopyLast, SwapLast, SetGlobalVar, ReadLocalVar, SetLocalVar, GotoIfTrue, GotoIfFalse, "
        "FunctionPointer, CallFunction, Return, Exit; instr_execution::{set_local,get_local,instr_set_var,"
        "instr_call_function,push_call_frame,instr_return,instr_copy_last}; Vm::binary_op",
    ],
    bounds="layer 1: arithmetic operators per kind pair over {nil, integer, real}, all payloads (multiplication and "
           "division only where both sides are integers/nil); layer 2: hand-assembled programs of 3-5 instructions "
           "in the shapes the compiler emits (literal, literal, operator, store; locals at frame offsets 0 and 2; a "
           "call with 1 or 2 arguments above a live caller local and its return; conditional jumps with concrete "
           "truth value), every literal operand solver-chosen over all i64; small VM (stacks 8-12, 4 frames)",
    outside="the compiler itself (compile() cannot be executed symbolically, DESIGN §0): which bytecode a card program "
            "becomes is not decided here, so composition of features through the compiler, programs longer than 5 "
            "instructions (whole-VM runs beyond ~5 dispatches do not close), symbolic control flow, loops, for-each, tables, strings and host calls in composed programs "
            "are outside this check; integer overflow is C04's",
    explanation="What the solver decides: for ALL literal values, the interpreter's arithmetic, comparison, boolean, "
                "stack, local/global variable, jump and call/return instructions have the effect the card semantics "
                "prescribe (operand order, numeric coercion, frame-relative locals, argument binding, caller frame "
                "untouched, nil when nothing is returned). What it cannot decide: the quantifier over programs.",
    assumptions=[
        "hand-assembled bytecode in the shapes emitted by compiler.rs; opcode numbers taken from the crate (verif_hooks::op)",
        "integer overflow excluded (C04); non-NaN reals",
        "small VM built by the Vm::verif_new_small hook (no stdlib natives registered)",
    ],
    level_text="Bounded model checking with Kani/CBMC of the real value operators and of the real interpreter loop on "
               "short compiler-shaped instruction sequences with solver-chosen literal operands (all i64): the "
               "run-time half of 'compiled programs compute what the card language defines', per instruction and "
               "for call/return, locals and jumps. The program dimension is enumerated, not solver-quantified. Compiler half: "
               "the real resolve_var on one function level with three locals whose names are solver-chosen (shadowing) "
               "and any queried name, through a hook.",
    level_note="Trusted: Kani/CBMC; the reference semantics in harness/src/c01.rs; that the hand-assembled shapes "
               "match what the compiler emits (compile() as a whole is outside symbolic reach; its variable-resolution unit "
               "is driven through Compiler::verif_* hooks).",
    mem_gb=18, jobs=3,
    design_ref="DESIGN.md §3 C01, §3.0",
    cap=dict(quick=600, thorough=900),
    harnesses=[
        _cx("cx_resolve_var_d0", "quick", bounds="compiler: resolve_var in one function with three locals whose names are solver-chosen letters (shadowing occurs) and any queried name: the innermost binding, else a global"),
        _cx("cx_resolve_var_d0_n2", "thorough", bounds="compiler: resolve_var in one function with two locals of solver-chosen names"),
        _cx("cx_scope_end_emits", "x", bounds="compiler: scope_end releases exactly the locals of the scope (Pop / CloseUpvalue), outer locals survive"),
        H("c01", "c01_value_add_int_int", bounds="Integer + Integer, all i64 pairs without overflow"),
        H("c01", "c01_value_sub_int_int", "thorough", bounds="Integer - Integer"),
        H("c01", "c01_value_mul_int_int", bounds="Integer * Integer"),
        H("c01", "c01_value_add_int_nil", bounds="Integer + Nil (nil counts as 0)"),
        H("c01", "c01_value_sub_nil_int", "thorough", bounds="Nil - Integer"),
        H("c01", "c01_value_add_nil_nil", bounds="Nil + Nil = Nil"),
        H("c01", "c01_value_add_int_real", bounds="Integer + Real, all payloads"),
        H("c01", "c01_value_sub_real_int", "thorough", bounds="Real - Integer"),
        H("c01", "c01_value_add_real_real", "thorough", bounds="Real + Real"),
        H("c01", "c01_value_add_real_nil", "thorough", bounds="Real + Nil"),
        H("c01", "c01_value_div_int_int", "thorough", bounds="Integer / Integer is the real quotient"),
        _vm("c01", "c01_vm_add", bounds="[int x][int y][Add][SetGlobal 0][Exit], all x,y"),
        _vm("c01", "c01_vm_sub", bounds="same, Sub (operand order)"),
        _vm("c01", "c01_vm_mul", "thorough", bounds="same, Mul"),
        _vm("c01", "c01_vm_equals", "thorough", bounds="same, Equals"),
        _vm("c01", "c01_vm_not_equals", "thorough", bounds="same, NotEquals"),
        _vm("c01", "c01_vm_less", "x", bounds="same, Less (operand order)"),
        _vm("c01", "c01_vm_less_or_eq", "x", bounds="same, LessOrEq"),
        _vm("c01", "c01_vm_and", "thorough", bounds="same, And"),
        _vm("c01", "c01_vm_or", "thorough", bounds="same, Or"),
        _vm("c01", "c01_vm_xor", "thorough", bounds="same, Xor"),
        _vm("c01", "c01_vm_locals_off0", "x", dispatches=5, bounds="[SetLocal 0][int y][SetLocal 1][ReadLocal 0][Exit] at frame offset 0"),
        _vm("c01", "c01_vm_locals_off2", "x", dispatches=5, bounds="same at frame offset 2 above two caller slots"),
        _vm("c01", "c01_vm_local_overwrite", "x", dispatches=4, bounds="[SetLocal 0][ReadLocal 0][ReadLocal 1][Exit] on existing locals"),
        _vm("c01", "c01_vm_globals", dispatches=5, bounds="[SetGlobal 2][SetGlobal 0][ReadGlobal 2][ReadGlobal 1][Exit]"),
        _vm("c01", "c01_vm_call_ret_arg0", "x", dispatches=5, bounds="call f(x,y) above a live caller slot; f returns its local 0"),
        _vm("c01", "c01_vm_call_ret_arg1", "x", dispatches=5, bounds="call f(x,y) above a live caller slot; f returns its local 1"),
        _vm("c01", "c01_vm_call_no_return_value", "x", dispatches=5, bounds="function ending in [ScalarNil][Return]"),
        _vm("c01", "c01_vm_stack_ops", dispatches=5, bounds="[SwapLast][Pop][CopyLast][Not][Exit]"),
        _vm("c01", "c01_vm_jump_if_true_taken", "thorough", dispatches=3, bounds="GotoIfTrue on a truthy value"),
        _vm("c01", "c01_vm_jump_if_true_not_taken", "thorough", dispatches=3, bounds="GotoIfTrue on 0"),
        _vm("c01", "c01_vm_jump_if_false_taken", "thorough", dispatches=3, bounds="GotoIfFalse on 0"),
        _vm("c01", "c01_vm_jump_if_false_not_taken", "thorough", dispatches=3, bounds="GotoIfFalse on a truthy value"),
        _vm("c01", "c01_vm_goto", "thorough", dispatches=3, bounds="Goto over an instruction"),
    ],
)

# --------------------------------------------------------------------------- C04
def _c04(name, tier="quick", dispatches=3, b=""):
    return _vm("c04", name, tier, dispatches=dispatches, bounds=b)


PROPS["C04"] = dict(
    functions=[
        "Vm::_run dispatch of every pushing instruction at a full value stack; SwapLast/Not/Add/Pop/Less on short "
        "stacks; CallFunction at a full call stack; CallFunction/GetProperty/AppendTable/PopTable/NthRow/ReadUpvalue/"
        "SetUpvalue/Len/Return on wrong-kind operands; the budget counter; InitTable/FunctionPointer/Closure under "
        "tiny memory limits; <Value as Add/Sub/Mul/Div> over the full i64 range",
        "instr_execution::{push_call_frame,instr_call_function,instr_return,read_upvalue,write_upvalue,instr_len}, "
        "Vm::{stack_push,binary_op,init_table,init_function,init_closure}, RuntimeData::{init_*}, CaoLangAllocator::alloc",
    ],
    bounds="small VM: value stack capacities 2,3,4; call stack capacities 1,2; memory limits 0,16,40,64 bytes; "
           "instruction budgets 0..=3; operands solver-chosen over all i64; programs of 2-4 instructions",
    outside="compile-time totality (compile() cannot be executed symbolically; 'for all Modules M: compile(M) in "
            "{Ok,Err}' is not decided here); native stack overflow on self-referencing tables (see known findings); "
            "programs longer than 5 instructions; larger stacks/limits (the comparison against the capacity is the "
            "same code at every size, which is stated, not proved)",
    explanation="For every operand value the SAT solver shows that exhausting the value stack, the call stack, "
                "the memory limit or the instruction budget, applying an instruction to a value of the wrong kind, "
                "and integer overflow all end in Ok or the documented error value: Kani's panic, arithmetic-overflow, "
                "bounds, unwrap/expect and unwinding checks are all enabled, so any reachable panic is a counterexample.",
    assumptions=[
        "hand-assembled bytecode (the compiler is outside symbolic reach); alloc::fmt::format stubbed (message text is not checked)",
        "Kani/CBMC model the dev profile, where arithmetic overflow and debug assertions panic",
    ],
    level_text="Bounded model checking with Kani/CBMC of the interpreter's behaviour at its resource limits and on "
               "wrong-kind operands: all operand values, small concrete stack sizes / limits / budgets; every "
               "reachable panic, overflow, out-of-bounds access or failed unwrap in the driven code is a counterexample; the "
               "string-operand decoders (decode_str, read_str) are total on arbitrary bytes.",
    level_note="Trusted: Kani/CBMC; sizes are concrete and small; compile-time totality is not covered.",
    mem_gb=18, jobs=3,
    design_ref="DESIGN.md §3 C04",
    cap=dict(quick=600, thorough=900),
    harnesses=[
        H("c10", "c10_decode_str_total_6", bounds="decode_str (string operands of StringLiteral / NativeFunctionPointer / property names) on any 0..=6 bytes: never panics"),
        H("c10", "c10_read_str_total_8", bounds="read_str at any position of any 0..=8 data bytes: never panics"),
        _c04("c04_arith_full_add", "quick", b="[int x][int y][Add][Exit] over all i64 x,y", dispatches=4),
        _c04("c04_arith_full_sub", "thorough", b="same, Sub", dispatches=4),
        _c04("c04_arith_full_mul", "quick", b="same, Mul", dispatches=4),
        _c04("c04_arith_full_div", "thorough", b="same, Div", dispatches=4),
        _c04("c04_stack_full_c3_scalar_int", "quick", b="ScalarInt on a full value stack (capacity 3)"),
        _c04("c04_stack_full_c3_scalar_nil", "thorough", b="ScalarNil on a full stack"),
        _c04("c04_stack_full_c3_copy_last", "thorough", b="CopyLast on a full stack"),
        _c04("c04_stack_full_c3_read_local", "x", b="ReadLocalVar on a full stack"),
        _c04("c04_stack_full_c2_scalar_float", "thorough", b="ScalarFloat on a full stack (capacity 2)"),
        _c04("c04_stack_full_c3_init_table", "x", b="InitTable on a full stack"),
        _c04("c04_stack_full_c3_function_pointer", "thorough", b="FunctionPointer on a full stack"),
        _c04("c04_stack_full_c3_closure", "thorough", b="Closure on a full stack"),
        _c04("c04_stack_full_c4_read_global", "thorough", b="ReadGlobalVar on a full stack (capacity 4)"),
        _c04("c04_failed_push_then_clear_function", "quick", b="FunctionPointer fails to push on a full stack, then clear()"),
        _c04("c04_failed_push_then_clear_closure", "thorough", b="Closure fails to push on a full stack, then clear()"),
        _c04("c04_stack_edge_c2_swap_one", "quick", b="SwapLast with one value on a capacity-2 stack"),
        _c04("c04_stack_edge_c3_swap_two", "thorough", b="SwapLast with two values on a capacity-3 stack"),
        _c04("c04_stack_edge_c2_swap_empty", "thorough", b="SwapLast on an empty capacity-2 stack"),
        _c04("c04_stack_edge_c2_not_empty", "thorough", b="Not on an empty stack"),
        _c04("c04_stack_edge_c2_add_empty", "thorough", b="Add on an empty stack"),
        _c04("c04_stack_edge_c2_pop_empty", "thorough", b="Pop on an empty stack"),
        _c04("c04_calls_full_1", "x", b="CallFunction with call-stack capacity 1", dispatches=4),
        _c04("c04_calls_full_2", "x", b="CallFunction with call-stack capacity 2 at depth 2", dispatches=4),
        _c04("c04_wrong_kind_call", "x", b="CallFunction on an integer"),
        _c04("c04_wrong_kind_get_property", "x", b="GetProperty on an integer"),
        _c04("c04_wrong_kind_append", "x", b="AppendTable on an integer"),
        _c04("c04_wrong_kind_pop_table", "x", b="PopTable on an integer"),
        _c04("c04_wrong_kind_nth_row", "x", b="NthRow on an integer"),
        _c04("c04_wrong_kind_read_upvalue", "x", b="ReadUpvalue outside a closure"),
        _c04("c04_wrong_kind_set_upvalue", "x", b="SetUpvalue outside a closure"),
        _c04("c04_wrong_kind_len", "x", b="Len of an integer is defined"),
        _c04("c04_return_at_top_level", "x", b="Return with only the base frame"),
        _c04("c04_tiny_budget", "quick", b="budgets 0..=3 on a 3-instruction program", dispatches=4),
        _c04("c04_memory_limit_0_init_table", "quick", b="InitTable with memory limit 0"),
        _c04("c04_memory_limit_64_init_table", "thorough", b="InitTable with memory limit 64"),
        _c04("c04_memory_limit_16_function_pointer", "thorough", b="FunctionPointer with memory limit 16"),
        _c04("c04_memory_limit_40_closure", "thorough", b="Closure with memory limit 40"),
    ],
)

# --------------------------------------------------------------------------- C05
_C05_LIM = dict(_GROW0)
_C05_LIM.update({
    # at most one object on these heaps: sweeping / clearing loops need two iterations
    r"vm::runtime::RuntimeData::clear_objects$#*": 2,
    r"vm::runtime::RuntimeData::gc$#*": 3,
    r"<std::vec::IntoIter<std::ptr::NonNull<.*CaoLangObject>> as std::iter::Iterator>::": 2,
})
PROPS["C05"] = dict(
    functions=[
        "CaoLangAllocator::{new,alloc,dealloc}; RuntimeData::{new,init_function,init_string,init_table,init_closure,"
        "init_upvalue,free_object,clear,clear_objects,gc}; CaoLangString::{layout,drop}; CaoLangTable::with_capacity",
    ],
    bounds="allocator step: limit any value <= 2^40, counter any value <= limit, request sizes 1/8/72/4096 with "
           "alignments 1/8/16 (collection threshold above the limit, so no collection inside the step); ledger: one "
           "constructor (function, string of 4 bytes, table, closure, upvalue) under memory limits at and one byte "
           "around each of its allocation boundaries (concrete per harness), then clear(); collection: one function object, rooted on the value stack or not",
    outside="the collection threshold policy (OutOfMemory with only garbage allocated, see known findings), heaps "
            "with more than one object, table growth, allocation histories",
    explanation="The solver decides for all counter/limit values that a successful allocation charges exactly size+align "
                "and stays within the limit, a failed one charges nothing, dealloc refunds the charge; and for every "
                "limit 0..=255 that what is accounted after a (possibly failing) constructor is what is outstanding "
                "and returns to zero on clear().",
    assumptions=["system allocator never fails (Kani default); Kani/CBMC model the dev profile"],
    level_text="Bounded model checking with Kani/CBMC of the real allocator arithmetic (all counter and limit values) and "
               "of the runtime's object constructors under all memory limits 0..=255, plus reclamation of one "
               "unreachable object.",
    level_note="Trusted: Kani/CBMC; one object per heap; the GC threshold policy is a recorded finding, not decided here.",
    design_ref="DESIGN.md §3 C05",
    cap=dict(quick=420, thorough=1800),
    harnesses=[
        H("c05", "c05_alloc_step_8_8", bounds="alloc(8 bytes, align 8) against any counter/limit"),
        H("c05", "c05_alloc_step_72_8", bounds="alloc(72, 8)"),
        H("c05", "c05_alloc_step_1_1", "thorough", bounds="alloc(1, 1)"),
        H("c05", "c05_alloc_step_4096_16", "thorough", bounds="alloc(4096, 16)"),
        H("c05", "c05_ledger_function_95", bounds="init_function with limit 95 (one byte short): fails, nothing accounted", limits=_C05_LIM),
        H("c05", "c05_ledger_function_96", "thorough", bounds="init_function with limit 96: succeeds, clear() returns to zero", limits=_C05_LIM),
        H("c05", "c05_ledger_string_100", bounds="init_string: header fits, buffer does not (limit 100)", limits=_C05_LIM),
        H("c05", "c05_ledger_string_115", "thorough", bounds="init_string: one byte short (limit 115)", limits=_C05_LIM),
        H("c05", "c05_ledger_string_116", bounds="init_string: fits exactly (limit 116)", limits=_C05_LIM),
        H("c05", "c05_ledger_empty_string_200", bounds="init_string(\"\") (zero-length buffer), clear() returns to zero", limits=_C05_LIM),
        H("c05", "c05_ledger_empty_string_98", "thorough", bounds="init_string(\"\"): header fits, the 4-byte buffer charge does not (limit 98)", limits=_C05_LIM),
        H("c05", "c05_ledger_table_100", bounds="init_table: header fits, bucket storage does not (limit 100)", limits=_C05_LIM),
        H("c05", "c05_ledger_table_423", "thorough", bounds="init_table: one byte short (limit 423)", limits=_C05_LIM),
        H("c05", "c05_ledger_table_424", "thorough", bounds="init_table: fits exactly (limit 424)", limits=_C05_LIM),
        H("c05", "c05_ledger_closure_96", "thorough", bounds="init_closure with limit 96", limits=_C05_LIM),
        H("c05", "c05_ledger_upvalue_95", "thorough", bounds="init_upvalue with limit 95", limits=_C05_LIM),
        H("c05", "c05_collect_unrooted", bounds="gc() reclaims an unreachable function object", limits=_C05_LIM),
        H("c05", "c05_collect_rooted", "x", bounds="gc() keeps a function object on the value stack", limits=_C05_LIM),
    ],
)

# --------------------------------------------------------------------------- C10
PROPS["C10"] = dict(
    functions=[
        "bytecode::{write_to_vec,read_from_bytes,encode_str,decode_str}, instr_execution::{decode_value,read_str}, "
        "Instruction::span / TryFrom<u8> for Instruction",
    ],
    bounds="operand round-trips for i64, u32, i32, u8, f64 (all bit patterns) and Handle at byte offsets 0..=3; "
           "string round-trips for lengths 0,1,3,5 (all ASCII contents) at offsets 0..=3; the string decoder on "
           "arbitrary buffers of up to 8 bytes; the span table for every byte 0..=255",
    outside="whole-artefact well-formedness of compiled programs (jump targets, labels, trace keys, variable ids): "
            "that quantifies over the compiler's input and compile() cannot be executed symbolically; strings longer "
            "than 5 bytes (in particular the 256-byte read window of read_str); non-ASCII strings",
    explanation="The emitter's operand/str encoders and the interpreter's decoders are shown inverse for all values "
                "at all small offsets, and the decoder total on untrusted bytes - the conditions under which the "
                "unchecked decode in the interpreter is memory-safe on compiler output. The property's quantifier over "
                "all compiled programs is NOT decided.",
    assumptions=["ASCII strings of length <= 5; Kani/CBMC model the dev profile"],
    level_text="Bounded model checking with Kani/CBMC of the real encode/decode pairs used by compiler and interpreter "
               "(all operand values, small strings, unaligned offsets) and of the opcode span table over all 256 bytes. "
               "Only the value-level half of C10 is decided; the for-all-programs half is outside.",
    level_note="Trusted: Kani/CBMC. The check does not look at any compiler output; the thorough tier adds the compiler's "
               "upvalue-index unit (resolve_var on nested closures) through hooks.",
    design_ref="DESIGN.md §3 C10",
    cap=dict(quick=900, thorough=2400), mem_gb=20,
    harnesses=[
        H("c10", "c10_roundtrip_ints_k0", bounds="i64,u32,i32,u8 at offset 0; truncated input rejected"),
        H("c10", "c10_roundtrip_ints_k3", "thorough", bounds="same at (unaligned) offset 3"),
        H("c10", "c10_roundtrip_float_handle_k1", bounds="f64 bits and Handle at offset 1"),
        H("c10", "c10_roundtrip_str_0", "thorough", bounds="empty string"),
        H("c10", "c10_roundtrip_str_1", "thorough", bounds="1-byte strings at offset 2"),
        H("c10", "c10_roundtrip_str_3", bounds="3-byte ASCII strings at offset 1"),
        H("c10", "c10_roundtrip_str_5", "thorough", bounds="5-byte ASCII strings at offset 3"),
        H("c10", "c10_decode_str_total_6", bounds="decode_str on any 0..=6 bytes"),
        H("c10", "c10_decode_str_total_8", "thorough", bounds="decode_str on any 0..=8 bytes"),
        H("c10", "c10_read_str_total_8", bounds="read_str at any position of any 0..=8 data bytes: total, inside the data"),
        H("c10", "c10_span_table", bounds="span for every byte value"),
        _cx("cx_resolve_var_d2", "x", bounds="(did not close: 13.5 GB after 19 min) compiler: closure in closure in function, 2+1+1 locals with solver-chosen names, 2 earlier resolves per closure level, any queried name: the upvalue index is within the closure's own list and the chain designates the innermost binding"),
        _cx("cx_resolve_var_d2b", "x", bounds="same with 3+2+0 locals, 1 earlier resolve (not measured after d2 did not close)"),
        _cx("cx_resolve_var_d2_min", "thorough", bounds="compiler: closure in closure (no own locals) in a function with two locals of solver-chosen names, one earlier resolve in the outer closure, any queried name: the upvalue index is the inner closure's own and the chain designates the right local (732 s)", timeout=2400),
        _cx("cx_scope_end_emits", "x", bounds="compiler: scope_end emits one Pop/CloseUpvalue per local of the scope"),
        H("c08", "cx_compile_probe", "x", bounds="probe: compile main=[SetGlobalVar g = ScalarInt x] with an empty std module: did not close (25 min, 4.5 GB)", stubbing=True, timeout=1500),
    ],
)

# --------------------------------------------------------------------------- C08
def _rf(ns, imp, tier):
    nsn = ["the root module", "module a", "module a.b"][ns]
    impn = ["no import", "import c.f", "import super.f", "import super.super.f", "import super.superf",
            "import super.c (module)", "import b.c (module)", "import super.super.super.f"][imp]
    return _cx(f"cx_resolve_fn_ns{ns}_imp{imp}", tier,
               bounds=f"resolve_function: caller in {nsn}, {impn}; 2^9 jump tables (which of nine candidate functions exist) x 5 called names",
               limits={r"hash_map::CaoHashMap::<.*>::find_ind::<.*>#0": 17})


_RQ = [(0, 2, 0), (2, 5, 2), (2, 4, 1), (1, 1, 0), (2, 3, 0), (1, 6, 2), (1, 2, 0), (0, 1, 0), (2, 2, 0), (1, 4, 1), (2, 1, 0),
       (0, 7, 0), (1, 5, 2), (2, 6, 2), (2, 7, 0), (1, 3, 0), (0, 0, 0), (2, 0, 0), (1, 0, 3), (2, 0, 3)]


def _rq(ns, imp, q, tier):
    nsn = ["the root module", "module a", "module a.b"][ns]
    impn = ["no import", "import c.f", "import super.f", "import super.super.f", "import super.superf",
            "import super.c (module)", "import b.c (module)", "import super.super.super.f"][imp]
    qn = ["f", "superf", "c.f", "a.f", "zz"][q]
    return _cx(f"cx_resolve_q_ns{ns}_imp{imp}_q{q}", tier,
               bounds=f"resolve_function: caller in {nsn}, {impn}, call `{qn}`; which of the (up to four) functions the rules can reach exist is solver-chosen",
               limits={r"hash_map::CaoHashMap::<.*>::find_ind::<.*>#0": 17})


PROPS["C08"] = dict(
    functions=["Compiler::{resolve_function,add_function,encode_jump (through resolve_function)}, compiler::super_depth, "
               "FunctionIr::full_name, CaoHashMap<String,FunctionMeta>::{insert,get,contains}"],
    bounds="resolve_function for a caller in the root module, in `a` and in `a.b` (concrete per harness) under one of eight "
           "import variants (none, function imports c.f / super.f / super.super.f / super.superf / super.super.super.f, "
           "module imports super.c / b.c; concrete per harness); one called name of f, superf, c.f, a.f, zz per harness (20 combinations of module x import x name, 6 in the quick tier); "
           "WHICH of the candidate functions the four rules can reach for that call (out of f, superf, a.f, a.superf, a.b.f, "
           "a.b.c.f, a.c.f, c.f, a.super.c.c) exist is solver-chosen. The all-names harnesses (2^9 tables x 5 names) did not close "
           "in 25 min and are tier x. add_function: two registrations, module (root, a, a.b) and name (f, g) solver-chosen.",
    outside="module-tree flattening (flatten_module, execute_imports, ensure_invariants): `std` clash, ambiguous / malformed "
            "imports, invalid function and module names, NoMain; longer names and deeper modules; more than one import at a time; "
            "the run-time half (the callee's frame, argument binding, return value): C01/C06 function-level harnesses; whole "
            "compile() (did not close even with an empty std module); super_depth on arbitrary strings (did not close)",
    explanation="The compiler's own resolution routine is executed symbolically through an add-only hook; the expected "
                "designation is computed in the harness from the property's resolution order (absolute path, own module, function "
                "import, module-prefix import, `super.` walking up from the caller's module) on string paths, independently of "
                "the implementation. For every table of existing functions the call must designate the first existing candidate "
                "in that order with that function's arity, and nothing otherwise (an import above the root is an error, not a "
                "panic).",
    assumptions=["std RandomState::new stubbed with fixed keys (imports are iterated, never looked up by hash, in resolve_function)",
                 "alloc::fmt::format stubbed in the resolve_function harnesses (error message text only; paths are built with "
                 "collect::<String>()), NOT stubbed in the add_function harness (full_name uses format!)",
                 "--max-field-sensitivity-array-size 32768"],
    level_text="Bounded model checking with Kani/CBMC of the compiler's real name-resolution units (resolve_function, add_function) "
               "driven through hooks: caller module, import and called names concrete per harness from small catalogues, the set "
               "of existing functions (2^9) solver-chosen; the call must designate exactly the function the resolution order of "
               "the property selects, or be an error. Module flattening, import validation and the run-time half are outside.",
    level_note="Trusted: Kani/CBMC; the reference resolution written in harness/src/c08.rs from the property text; the catalogues "
               "of module paths, imports and names (everything outside them is not covered).",
    design_ref="DESIGN.md §3 C08",
    cap=dict(quick=900, thorough=3600), mem_gb=20, jobs=4,
    harnesses=[_rq(ns, imp, q, "x") for i, (ns, imp, q) in enumerate(_RQ)] + [
        _rf(ns, imp, "x") for ns in (0, 1, 2) for imp in range(8)] + [
        _cx("cx_add_function_duplicates", "x", bounds="add_function twice: modules root/a/a.b and names f/g solver-chosen (36 combinations), real format! for the full name",
            limits={r"hash_map::CaoHashMap::<.*>::find_ind::<.*>#0": 17}, timeout=2400, stubbing=True),
        _cx("cx_super_depth_7", "x", bounds="super_depth, all 7-byte strings over {s,u,p,e,r,.,x}: did not close (315 s)"),
        _cx("cx_super_depth_9", "x", bounds="super_depth, 9 bytes"),
        _cx("cx_super_depth_13", "x", bounds="super_depth, 13 bytes"),
    ],
)

# --------------------------------------------------------------------------- C11
PROPS["C11"] = dict(
    functions=[
        "<HandleTable<T> as Serialize>::serialize, HandleTableVisitor::visit_map, <CaoHashMap<K,V> as Serialize>::serialize, "
        "HashMapVisitor::visit_map (capacity from size_hint, power-of-two padding, insert/growth during load)",
    ],
    bounds="0..=3 entries with solver-chosen keys (non-zero u32 handles / u8) and values, size_hint exact, zero "
           "(under-stated) or 8 (over-stated); an in-memory serde data-model back end written in the harness",
    outside="the JSON/YAML/CBOR/bincode codecs (third-party parsers), the derived serde of Module/Card/"
            "CaoCompiledProgram, byte-identical recompilation, OwnedValue conversion, size_hint = None (128-slot table)",
    explanation="de(ser(m)) has the same key-to-value content and length, for every key/value choice and every "
                "size_hint, for the two hand-written map (de)serializers of this repository.",
    assumptions=["serde's generic plumbing as compiled; Kani/CBMC model the dev profile"],
    level_text="Bounded model checking with Kani/CBMC of the hand-written Serialize/Deserialize impls of HandleTable "
               "and CaoHashMap through the real serde traits, with symbolic entries and size hints. The wire formats "
               "and program-level round trips of the property are outside this technique's reach here.",
    level_note="Trusted: Kani/CBMC; the in-memory serde back end in harness/src/c11.rs.",
    design_ref="DESIGN.md §3 C11",
    cap=dict(quick=420, thorough=1800),
    harnesses=[
        H("c11", "c11_handle_table_n2_exact", "x", bounds="HandleTable, 2 entries, exact size_hint"),
        H("c11", "c11_handle_table_n2_zero_hint", "x", bounds="HandleTable, 2 entries, size_hint Some(0)"),
        H("c11", "c11_handle_table_n2_over_hint", "x", bounds="HandleTable, 2 entries, size_hint Some(8)"),
        H("c11", "c11_handle_table_n1_exact", "x", bounds="HandleTable, 1 entry"),
        H("c11", "c11_handle_table_n0_exact", bounds="HandleTable, empty"),
        H("c11", "c11_handle_table_n3_exact", "x", bounds="HandleTable, 3 entries (growth during load)"),
        H("c11", "c11_hash_map_n2_exact", "x", bounds="CaoHashMap, 2 entries, exact size_hint", limits=_GROW1),
        H("c11", "c11_hash_map_n2_zero_hint", "x", bounds="CaoHashMap, 2 entries, size_hint Some(0)", limits=_GROW1, heavy=True),
        H("c11", "c11_hash_map_n2_over_hint", "x", bounds="CaoHashMap, 2 entries, size_hint Some(8)", limits=_GROW1),
        H("c11", "c11_hash_map_n1_exact", "x", bounds="CaoHashMap, 1 entry", limits=_GROW1),
        H("c11", "c11_hash_map_n0_exact", "quick", bounds="CaoHashMap, empty", limits=_GROW1),
        H("c11", "c11_hash_map_n3_exact", "x", bounds="CaoHashMap, 3 entries", limits=_GROW1, heavy=True),
    ],
)

# --------------------------------------------------------------------------- C18
def _c18(name, tier="quick", dispatches=2, b="", **kw):
    return _vm("c18", name, tier, dispatches=dispatches, bounds=b, **kw)


PROPS["C18"] = dict(
    functions=[
        "<fn(&mut Vm<Aux>, T1..T4) -> Result as VmFunction<Aux>>::call for arities 1..=4, traits::conversion_error, "
        "TryFrom<Value> for i64/f64/bool/Value/Nilable<i64>/&CaoLangTable, Vm::{register_native_function,"
        "_register_native_function,stack_pop,stack_push,run_function}, instr_execution::{execute_call_native,call_native}",
    ],
    bounds="wrappers: arities 1..=4 with parameter types i64, f64, bool, Value, Nilable<i64>, &CaoLangTable; stack "
           "values solver-chosen per concrete kind tuple over {nil, integer, finite real}; one CallNative dispatch "
           "(result, native error, unknown native, reserved name); one re-entrant call: native -> run_function(script "
           "function of arity 1 returning its argument)",
    outside="message text of InvalidArgument (alloc::fmt::format is stubbed), string/table arguments, stdlib "
            "wrappers, natives reached through dynamic call, recursion through another native, arities > 4",
    explanation="For all argument values the j-th declared parameter receives the documented conversion of the j-th "
                "pushed value, exactly k values are consumed, values below are untouched, the result becomes the "
                "value of the call, a native error becomes TaskFailure{name}, and after a re-entrant run_function the "
                "caller's stacks are as before plus the result.",
    assumptions=["alloc::fmt::format stubbed (parameter number in the message not checked); small VM hook constructor"],
    level_text="Bounded model checking with Kani/CBMC of the real typed native-function wrappers (arities 1-4, all "
               "argument values per kind tuple), of CallNative dispatch and of one re-entrant script call.",
    level_note="Trusted: Kani/CBMC; kinds enumerated; message text outside.",
    design_ref="DESIGN.md §3 C18",
    cap=dict(quick=600, thorough=900), mem_gb=18, jobs=3,
    harnesses=[
        _c18("c18_wrapper2_int_int", b="(i64,f64) from (Integer,Integer)", dispatches=0),
        _c18("c18_wrapper2_real_int", b="(i64,f64) from (Real,Integer)", dispatches=0),
        _c18("c18_wrapper2_nil_real", "thorough", b="(i64,f64) from (Nil,Real)", dispatches=0),
        _c18("c18_wrapper2_int_nil", "thorough", b="(i64,f64) from (Integer,Nil)", dispatches=0),
        _c18("c18_wrapper3_int_int_int", b="(i64,bool,Value) from three integers", dispatches=0),
        _c18("c18_wrapper3_real_nil_int", "thorough", b="(i64,bool,Value) from (Real,Nil,Integer)", dispatches=0),
        _c18("c18_wrapper3_nil_real_real", "thorough", b="(i64,bool,Value) from (Nil,Real,Real)", dispatches=0),
        _c18("c18_wrapper4_ints", b="four i64 parameters in declaration order", dispatches=0),
        _c18("c18_wrapper1_nilable_nil", b="Nilable<i64> from Nil", dispatches=0),
        _c18("c18_wrapper1_nilable_int", "thorough", b="Nilable<i64> from Integer", dispatches=0),
        _c18("c18_wrapper1_nilable_real", "thorough", b="Nilable<i64> from Real", dispatches=0),
        _c18("c18_conversion_failure_int", b="&CaoLangTable from Integer: InvalidArgument, native not called", dispatches=0),
        _c18("c18_conversion_failure_nil", "thorough", b="&CaoLangTable from Nil", dispatches=0),
        _c18("c18_call_native_result", "x", b="[CallNative f][Exit]: result is the value of the call", dispatches=2),
        _c18("c18_call_native_error", "x", b="native error surfaces as TaskFailure{name}", dispatches=2),
        _c18("c18_call_native_missing_and_reserved", "x", b="unknown native; reserved '__' prefix", dispatches=2),
        _c18("c18_reenter_script_function", "x", b="native -> run_function(script fn) -> back", dispatches=4,
             limits={r"vm::Vm::<.*>::_run$": 1, r"vm::Vm::<.*>::run_function$": 0}),
    ],
)

# --------------------------------------------------------------------------- C07
_C07_LIM = dict(_GROW0)
_C07_LIM.update({
    r"^<cao_lang::prelude::Value as std::cmp::PartialEq>::eq$": 0,
    r"^<cao_lang::prelude::Value as std::hash::Hash>::hash::<.*>$": 0,
    r"^<cao_lang::vm::runtime::cao_lang_object::CaoLangObject as std::(cmp::PartialEq|hash::Hash)>::\w+(::<.*>)?$#*": 1,
    r"hash_map::CaoHashMap::<.*>::find_ind::<.*>#0": 13,
})
PROPS["C07"] = dict(
    functions=[
        "CaoLangTable::{with_capacity,insert,append,pop,len,nth_key,get (Deref to CaoHashMap)}, "
        "CaoHashMap<Value,Value,AllocProxy>::{insert,get,contains,find_ind}, <Value as Hash/Eq> on integers",
    ],
    bounds="an EMPTY table x one operation (quick: set(any i64 key, any i64 value); thorough adds append(any value) and pop) x "
           "one solver-chosen observation (get by any i64 key, len, nth_key at any position 0..=7)",
    outside="every operation on a non-empty table: one symbolic operation on catalogued pre-states of 1-5 entries and "
            "scripts of 4-5 operations with concrete keys both ran past 600-700 s (tier x), so remove order, pop followed "
            "by append, overwrite, growth and key collisions inside a table are NOT decided here (the generic map under it "
            "is C12's); string, real, nil and table keys; aliasing through VM variables; the VM instructions; for-each",
    explanation="Single step from the empty table against an insertion-ordered association list written from the property "
                "text; key, value and the observed key/position are solver variables. Thin by measurement, stated as such.",
    assumptions=["tables owned by a large-limit AllocProxy without runtime (no collection can trigger)"],
    level_text="Bounded model checking with Kani/CBMC of the real CaoLangTable over the real CaoHashMap<Value,Value>: one "
               "set (thorough: append, pop) on an empty table with all i64 keys and values, observed through get/len/nth_key "
               "with solver-chosen arguments. Histories and non-empty tables are outside (did not close).",
    level_note="Trusted: Kani/CBMC; a single step from the empty table only.",
    design_ref="DESIGN.md §3 C07",
    cap=dict(quick=600, thorough=2400),
    harnesses=[H("c07", n, t, bounds=b, limits=_C07_LIM) for (n, t, b) in [
        ("c07_set_pre0", "quick", "empty table + set(any,any)"),
        ("c07_set_pre2", "x", "3 entries + set(any,any) (overwrite or new key)"),
        ("c07_set_pre4_growth", "x", "5 entries + set: growth 8->12"),
        ("c07_remove_pre2", "x", "3 entries + remove(any)"),
        ("c07_remove_pre4", "x", "5 entries + remove(any)"),
        ("c07_append_pre0", "thorough", "empty + append"),
        ("c07_append_pre3_gap", "x", "keys 0,1,2,4 + append: smallest unused key >= length"),
        ("c07_append_keys_2_1", "x", "keys 2,1 (set out of order) + append(any value): stored under 3, nothing overwritten; full comparison"),
        ("c07_append_keys_0_1_2_4", "x", "keys 0,1,2,4 + append(any value): stored under 3... (5 is the next free index not below the length 4); full comparison"),
        ("c07_pop_pre0", "thorough", "pop on empty"),
        ("c07_pop_pre2", "x", "3 entries + pop"),
        ("c07_pop_pre3", "x", "keys 0,1,2,4 + pop"),
        ("c07_pop_then_append_pre3", "x", "pop then append reuses the freed index"),
        ("c07_nil_and_real_keys", "x", "nil key and any finite non-zero real key"),
        ("c07_set_then_pop", "x", "empty + set(any,any) + pop: value returned, key absent from both parts, empty again"),
        ("c07_set_then_pop_then_append", "x", "same, then append(any): stored under index 0"),
        ("c07_script_0", "x", "set 10,3,7; remove 10 - concrete keys, all i64 values, full comparison with the model at the end"),
        ("c07_script_1", "x", "append, append, pop, append - all i64 values"),
        ("c07_script_2", "x", "set 5,-2; remove 5; pop; pop (one past empty)"),
        ("c07_script_3", "x", "set 1,2; remove 1; set 1 again (moves to the end)"),
    ]],
)

# --------------------------------------------------------------------------- C03
PROPS["C03"] = dict(
    functions=["Vm::_run (budget counter), Vm::run_function (nested run), instr_execution::call_native, verif_hooks::count_dispatch"],
    bounds="budgets N solver-chosen in 1..=5 on an endless Goto loop",
    outside="budgets > 5 (the decrement-and-compare is the same code at every N: stated, not proved), result independence "
            "of a sufficient budget and the nested case (a native re-entering the interpreter through run_function): both "
            "harness families did not close (tier x); compiled programs, stdlib callbacks (sort/min/max)",
    explanation="With the dispatch-counter hook the solver decides, for every budget in the range, that no more than N "
                "instructions are dispatched by a run of an endless loop and that exhaustion is reported as Timeout. "
                "(Budget 0 and budgets 0..=3 on other programs: C04.)",
    assumptions=["alloc::fmt::format stubbed; hand-assembled programs"],
    level_text="Bounded model checking with Kani/CBMC of the interpreter's instruction budget with solver-chosen budgets "
               "1..=5 on an endless loop; the nested-run half of the property is outside (did not close).",
    level_note="Trusted: Kani/CBMC; the dispatch counter hook; small budgets.",
    design_ref="DESIGN.md §3 C03",
    cap=dict(quick=600, thorough=900), mem_gb=18, jobs=3,
    harnesses=[
        _vm("c03", "c03_endless_loop", dispatches=6, bounds="[Goto 0] under budget 1..=5"),
        _vm("c03", "c03_run_function_draws_on_the_run_budget", "x", dispatches=4,
            bounds="Vm::run_function on [ScalarNil][Return] with 5..=8 instructions left of 64: the remaining budget afterwards is at most R - executed",
            limits={r"vm::Vm::<.*>::run_function$#*": 3}),
        _vm("c03", "c03_run_function_budget", "x", dispatches=5,
            bounds="Vm::run_function on an endless script function with 1..=3 instructions left of a budget of 4",
            limits={r"vm::Vm::<.*>::run_function$#*": 3}),
        _vm("c03", "c03_sufficient_budget", "x", dispatches=4, bounds="[int x][SetGlobal 0][Exit] under budget 4..=7"),
        _vm("c03", "c03_run_function_exit_only", "x", dispatches=2,
            bounds="Vm::run_function on [Exit] with R instructions left of a budget M (2 <= R <= M < 2^32, both solver-chosen): exactly R-1 are left afterwards",
            limits={r"vm::Vm::<.*>::run_function$#*": 3}),
        _vm("c03", "c03_run_function_exit_only_exhausted", "x", dispatches=2,
            bounds="Vm::run_function on [Exit] with 0 or 1 instructions left of any budget: Timeout, nothing dispatched",
            limits={r"vm::Vm::<.*>::run_function$#*": 3}),
        _vm("c03", "c03_nested_budget", "x", dispatches=6, bounds="native -> run_function(endless) under budget 3..=5",
            limits={r"vm::Vm::<.*>::_run$": 1, r"vm::Vm::<.*>::run_function$": 0}),
    ],
)

# --------------------------------------------------------------------------- C06
PROPS["C06"] = dict(
    functions=["instr_execution::{register_upvalue,read_upvalue,write_upvalue,close_upvalues,_close_upvalues,stack_offset} "
               "called directly (verif_hooks::instr), RuntimeData::init_upvalue, Vm::init_closure, "
               "CardIndex::as_handle, Handle::{from_u64,from_bytes,add}"],
    bounds="function level, ONE closure: enclosing frame at offset 0, 2 or 3 and local index 0 or 1 (concrete per harness), "
           "all slot contents and the written value solver-chosen over all i64; close at scope exit at offsets 0 and 2; "
           "closure-site labels: pairwise distinct for function indices 0..=7 and two-level card paths with sub-indices "
           "0..=15; distinct from every function label for f 0..=63 and three-level paths with sub-indices 0..=255; "
           "pairwise distinct in that wider space (known finding: a collision exists)",
    outside="two closures sharing a variable, two open upvalues, Return closing upvalues, non-local (nested) upvalues, "
            "closures in loops, the dispatch loop (whole-VM harnesses did not close), compiled closure shapes (the compiler "
            "is outside symbolic reach), closure sites in different modules (the label does not depend on the module), "
            "garbage collection of captured variables (C02, not applicable)",
    explanation="Per frame offset / local index the solver decides over all slot contents that the registered upvalue "
                "aliases exactly the enclosing frame's local (pointer identity), that a write through it from the closure's "
                "own frame reaches that variable and no other, that a read sees it, and that after CloseUpvalue the open "
                "list is empty and the closure holds its own copy of the last value. Label identity: see bounds.",
    assumptions=["instruction functions driven directly on a small VM (stack 8-9, 3 frames) with the operands compiler.rs emits; "
                 "alloc::fmt::format stubbed; open-upvalue list walks bounded to 3 iterations (unwinding assertion)"],
    level_text="Bounded model checking with Kani/CBMC of the interpreter's upvalue instruction functions on a small VM (one "
               "closure, all slot values, enumerated frame offsets), of the closure label function over a bounded index space, and of "
               "the compiler's real resolve_var/resolve_upvalue for a closure in a function with 3+1 locals of solver-chosen "
               "names: the upvalue designates the innermost binding of the name in the enclosing function.",
    level_note="Trusted: Kani/CBMC; shapes enumerated; sharing/nesting/return not covered; of the compiler only the "
               "variable-resolution unit, one closure level deep.",
    design_ref="DESIGN.md §3 C06",
    cap=dict(quick=600, thorough=900), mem_gb=18, jobs=3,
    harnesses=[
        _cx("cx_resolve_var_d1", "quick", bounds="compiler: a closure in a function with 3+1 locals (solver-chosen names, shadowing occurs), one earlier resolve, any queried name: the upvalue designates the innermost binding in the enclosing function and marks it captured"),
        _cx("cx_resolve_var_d1b", "thorough", bounds="same with 2+2 locals and two earlier resolves (570 s)"),
        _cx("cx_resolve_var_d1_n20", "thorough", bounds="closure without own locals in a function with two locals of solver-chosen names"),
        _cx("cx_resolve_var_d1_n21", "thorough", bounds="closure with one local in a function with two locals, names solver-chosen (the closure's own local may shadow)"),
        _cx("cx_resolve_var_d2_min", "thorough", bounds="closure in closure (no own locals) in a function with two locals, one earlier resolve in the outer closure: non-local upvalue chain (732 s)", timeout=2400),
        _cx("cx_resolve_var_d2", "x", bounds="(did not close: 13.5 GB after 19 min) closure in closure in function, 2+1+1 locals, two earlier resolves per level: non-local upvalue chains"),
        _cx("cx_resolve_var_d2b", "x", bounds="closure in closure, 3+2+0 locals"),
        _vm("c06", "c06_capture_off0_idx0", "x", dispatches=3, bounds="capture local 0 at frame offset 0", objects=True),
        _vm("c06", "c06_capture_off0_idx1", "x", dispatches=3, bounds="capture local 1 at frame offset 0", objects=True),
        _vm("c06", "c06_capture_off2_idx0", "x", dispatches=3, bounds="capture local 0 at frame offset 2", objects=True),
        _vm("c06", "c06_capture_off3_idx1", "x", dispatches=3, bounds="capture local 1 at frame offset 3", objects=True),
        _vm("c06", "c06_shared_capture", "x", dispatches=3, bounds="two closures capture the same local", objects=True),
        _vm("c06", "c06_read_write_upvalue_off0", "x", dispatches=3, bounds="SetUpvalue/ReadUpvalue from a callee frame", objects=True),
        _vm("c06", "c06_read_write_upvalue_off2", "x", dispatches=3, bounds="same with the enclosing frame at offset 2", objects=True),
        _vm("c06", "c06_close_keeps_last_value", "x", dispatches=2, bounds="CloseUpvalue then overwrite the dead slot", objects=True),
        H("c06", "c06_closure_label_injective", "quick", bounds="labels of closure sites: f 0..=7, path (0..=15, 0..=15): pairwise distinct"),
        H("c06", "c06_closure_label_vs_function_label", "quick", bounds="closure label (f 0..=63, 3-level path, sub-indices 0..=255) against every function label 0..=63: distinct"),
        H("c06", "c06_closure_label_injective_wide", "quick", bounds="f 0..=63, 3-level paths with sub-indices 0..=255: pairwise distinct (KNOWN FINDING: a collision exists)"),
    ],
)

# --------------------------------------------------------------------------- C15
PROPS["C15"] = dict(
    functions=["Vm::_run error construction (payload_to_error closure: which bytecode address the error is attributed to, "
               "recorded by verif_hooks::record_error_addr at the point where the trace map is consulted), "
               "instr_execution::call_native, ValueStack::push, the budget check"],
    bounds="programs [ScalarNil][failing instruction][Exit]; failing instruction: CallNative of a missing native (4 operand "
           "bytes, handle solver-chosen), ScalarInt on a full stack (8 operand bytes, value solver-chosen), budget exhausted "
           "before the second instruction; thorough adds ReadUpvalue outside a closure and ReadGlobalVar of an unknown id",
    outside="building the trace itself (trace-map lookup, Trace clone, SmallVec of call-chain entries: those harnesses did "
            "not close), errors on instructions without operands, call depth > 0 and the order of the call chain, what the "
            "compiler records in the trace map and under which CardIndex (compile() is outside symbolic reach), compile-error "
            "locations, namespaces of sub-modules",
    explanation="For each failing opcode the address the error is attributed to must be the address of the failing "
                "instruction's first byte (not the address after its operands), for all operand values.",
    assumptions=["hand-assembled programs; alloc::fmt::format stubbed; the attributed address is observed through a hook that "
                 "records the key used for the trace lookup"],
    level_text="Bounded model checking with Kani/CBMC of the address a runtime error is attributed to, for three (thorough: "
               "five) failing instruction kinds with solver-chosen operands on a small VM. Trace contents, call chains and "
               "the compiler half (which index a card gets) are outside.",
    level_note="Trusted: Kani/CBMC; the address hook; hand-built programs.",
    design_ref="DESIGN.md §3 C15",
    cap=dict(quick=600, thorough=900), mem_gb=22, jobs=2,
    harnesses=[
        _vm("c15", "c15_addr_missing_native", dispatches=2, bounds="missing native (4 operand bytes): attributed address = own first byte"),
        _vm("c15", "c15_addr_get_property", "x", dispatches=2, bounds="GetProperty on an integer (no operands)"),
        _vm("c15", "c15_addr_call_non_function", "x", dispatches=2, bounds="CallFunction on an integer"),
        _vm("c15", "c15_addr_read_upvalue", "thorough", dispatches=2, bounds="ReadUpvalue outside a closure (4 operand bytes)"),
        _vm("c15", "c15_addr_stackoverflow", dispatches=2, bounds="ScalarInt on a full stack (8 operand bytes)"),
        _vm("c15", "c15_addr_unknown_global", "thorough", dispatches=2, bounds="ReadGlobalVar of an unknown id (4 operand bytes)"),
        _vm("c15", "c15_addr_timeout", dispatches=2, bounds="budget exhausted before the second instruction"),
        _vm("c15", "c15_call_chain_order", "x", dispatches=2, frames=4,
            bounds="missing native below three call frames with solver-chosen call-site addresses (all u32): frames are visited innermost first",
            limits={r"hash_map::CaoHashMap::<.*>::find_ind::<.*>#0": 5}),
        _vm("c15", "c15_missing_native_depth0", "x", dispatches=2, bounds="missing native at depth 0"),
        _vm("c15", "c15_missing_native_depth1", "x", dispatches=2, bounds="missing native below one call frame"),
        _vm("c15", "c15_get_property_depth0", "x", dispatches=2, bounds="GetProperty on an integer"),
        _vm("c15", "c15_call_non_function_depth1", "x", dispatches=2, bounds="CallFunction on an integer below one frame"),
        _vm("c15", "c15_read_upvalue_depth0", "x", dispatches=2, bounds="ReadUpvalue outside a closure"),
        _vm("c15", "c15_stackoverflow_depth0", "x", dispatches=2, bounds="ScalarInt on a full stack"),
        _vm("c15", "c15_timeout", "x", dispatches=2, bounds="budget exhausted before the second instruction"),
    ],
)

# --------------------------------------------------------------------------- C17
PROPS["C17"] = dict(
    functions=["Vm::{run,clear}, RuntimeData::{clear,clear_objects,free_object}, ValueStack::clear, BoundedStack::clear"],
    bounds="one VM with small limits; clear() after a stack value, a global, a call frame, an object and an arbitrary "
           "(solver-chosen) collection threshold; three successive runs of a balanced 3-instruction program and of a "
           "failing one (with clear) on a call stack of capacity 2",
    outside="registered natives and auxiliary data (not touched by clear), run histories longer than three, programs "
            "ending in Timeout/OutOfMemory/native error, accounted memory across runs",
    explanation="'Behaves like a fresh VM' is decided as equality of every state component a later run can read; "
                "'does not leak' as the call depth returning to its value before the run.",
    assumptions=["state observed through the verif-hooks accessors"],
    level_text="Bounded model checking with Kani/CBMC: clear() restores every interpreter state component to that of a "
               "fresh VM for any earlier collection threshold, a VM that allocated an empty string accounts zero bytes after "
               "clear(), and repeated runs do not consume call frames.",
    level_note="Trusted: Kani/CBMC; state components enumerated in harness/src/c17.rs.",
    design_ref="DESIGN.md §3 C17",
    cap=dict(quick=600, thorough=900), mem_gb=18, jobs=3,
    harnesses=[
        H("c05", "c05_ledger_empty_string_200", bounds="a VM that allocated an empty string (zero-length buffer) and was cleared accounts zero bytes, like a fresh one", limits=_C05_LIM),
        _vm("c17", "c17_clear_equals_fresh", dispatches=0, bounds="clear() vs fresh VM, any earlier threshold",
            limits={r"vm::runtime::RuntimeData::clear_objects$#*": 3}),
        _vm("c17", "c17_run_three_times_ok", dispatches=4, bounds="[int x][Pop][Exit] run three times, call stack capacity 2"),
        _vm("c17", "c17_run_three_times_failing", "thorough", dispatches=4, bounds="failing program, clear, run again"),
    ],
)

# --------------------------------------------------------------------------- C02
PROPS["C02"] = dict(
    functions=["RuntimeData::{gc,free_object,init_string,init_function,init_closure}, CaoLangAllocator::alloc (forced-collection "
               "hook), Vm::_run dispatch of StringLiteral/FunctionPointer/CallFunction/ReadUpvalue/CallNative, "
               "instr_execution::{instr_string_literal,instr_call_function,read_upvalue,call_native}, VmFunction1::call"],
    bounds="table-free heaps of one or two objects (strings of 1-2 solver-chosen ASCII bytes, a function, a closure); "
           "fragments of 2-3 instructions with 1-2 allocation points; the collection schedule is a solver-chosen bit "
           "mask over those allocation points (all subsets)",
    outside="fragments containing tables (AppendTable/SetProperty/NthRow with growth: did not close, DESIGN §0), "
            "whole programs, more than two allocation points, upvalues and captured variables, stdlib natives",
    explanation="The schedule of collections is a solver variable. For each fragment CBMC's own pointer checks flag any "
                "access to a freed object, and a content audit compares every value that must survive with its "
                "original content; counterexamples replay natively with freed objects quarantined as tombstones.",
    assumptions=["collections forced through the verif-hooks gc schedule; objects' guards released before the fragment"],
    level_text="Bounded model checking with Kani/CBMC of small table-free heap fragments under every placement of forced "
               "collections: values reachable from the value stack and from globals survive unchanged; the two rooting "
               "gaps the check finds (closure of an active frame, argument held by a host function) are recorded findings.",
    level_note="Trusted: Kani/CBMC incl. its memory model; fragments are tiny; tables are outside.",
    design_ref="DESIGN.md §3 C02",
    cap=dict(quick=600, thorough=900), mem_gb=18, jobs=3,
    harnesses=[
        _vm("c02", "c02_string_in_global_survives", "x", dispatches=2, bounds="string in a global across StringLiteral, schedule in 0..=3", objects=True, gc_loops=True),
        _vm("c02", "c02_string_on_stack_survives", "x", dispatches=2, bounds="string on the value stack across StringLiteral", objects=True, gc_loops=True),
        _vm("c02", "c02_unreachable_string_is_collected", "x", dispatches=2, bounds="unreachable string, collection at the first allocation", objects=True, gc_loops=True),
        _vm("c02", "c02_running_closure_survives", "x", dispatches=3, bounds="closure executing its own body allocates; schedule in 0..=1", objects=True, gc_loops=True),
        _vm("c02", "c02_native_argument_survives", "x", dispatches=2, bounds="native holding a popped string argument allocates; schedule in 0..=1", objects=True, gc_loops=True),
        _vm("c02", "c02_gc_step_strings", "x", dispatches=0, bounds="RuntimeData::gc directly: two strings, each rooted on stack/global/both/nowhere (solver-chosen)", objects=True, gc_loops=True),
        _vm("c02", "c02_gc_step_table", "x", dispatches=0, bounds="gc directly: table holding a string (optionally also itself), each rooted solver-chosen", objects=True, gc_loops=True),
        _vm("c02", "c02_gc_step_closure", "x", dispatches=0, bounds="gc directly: closure -> closed upvalue -> string, roots solver-chosen", objects=True, gc_loops=True),
        _vm("c02", "c02_string_literal_under_gc", "x", dispatches=0, bounds="instr_string_literal directly, collection at any subset of its two allocations, a rooted string alongside", objects=True, gc_loops=True),
    ],
)

# --------------------------------------------------------------------------- function-level harnesses (fx)
def _fx(name, tier, b, **kw):
    kw.setdefault("objects", True)
    if "c06" in name or "probe_up" in name:
        # the open-upvalue list has at most two entries in these harnesses; without a tight bound
        # each of 18 unrollings dereferences a solver-chosen `next` pointer against every heap object
        kw.setdefault("limits", {})
        kw["limits"].setdefault(r"instr_execution::_close_upvalues::<.*>$#*", 3)
        kw["limits"].setdefault(r"instr_execution::register_upvalue::<.*>$#*", 3)
    return _vm("fx", name, tier, dispatches=0, bounds=b, **kw)


PROPS["C01"]["harnesses"] += [
    _fx("fx_c01_locals_off0", "thorough", "set_local/get_local directly: declare two locals, overwrite, read, undeclared read; frame offset 0"),
    _fx("fx_c01_locals_off2", "quick", "same at frame offset 2 above two caller slots"),
    _fx("fx_c01_call_return_off0_arg0", "x", "instr_call_function + get_local + instr_return: f(x,y) returns its local 0; caller frame at offset 0"),
    _fx("fx_c01_call_return_off2_arg1", "x", "same with the caller frame at offset 2, f returns its local 1"),
    _fx("fx_c01_globals", "quick", "instr_set_var / instr_read_var: store, read back, unset global, unknown id"),
]
PROPS["C04"]["harnesses"] += [
    _fx("fx_c04_call_non_function", "quick", "instr_call_function on an integer: InvalidArgument"),
    _fx("fx_c04_call_unknown_label", "thorough", "call of a function value whose label is missing: ProcedureNotFound"),
    _fx("fx_c04_call_missing_argument", "quick", "arity larger than the stack: MissingArgument"),
    _fx("fx_c04_call_stack_full", "quick", "call with a full call stack: CallStackOverflow"),
]
PROPS["C06"]["harnesses"] += [
    _fx("fx_probe_up0", "x", "probe"),
    _fx("fx_probe_up1", "x", "probe"),
    _fx("fx_probe_up2", "x", "probe"),
    _fx("fx_probe_up3", "x", "probe"),
    _fx("fx_probe_up4", "x", "probe"),
    _fx("fx_probe_up5", "x", "probe"),
    _fx("fx_probe_up6", "x", "probe"),
    _fx("fx_c06_capture_one_off0_idx0", "quick", "register_upvalue (one closure) + write_upvalue + read_upvalue from the closure's frame; enclosing frame at offset 0, local 0"),
    _fx("fx_c06_capture_one_off0_idx1", "thorough", "same, offset 0, local 1"),
    _fx("fx_c06_capture_one_off2_idx1", "quick", "same, enclosing frame at offset 2, local 1"),
    _fx("fx_c06_capture_one_off3_idx0", "thorough", "same, enclosing frame at offset 3, local 0"),
    _fx("fx_c06_siblings_share_off0", "x", "two closures capture the same local: one shared upvalue; offset 0"),
    _fx("fx_c06_siblings_share_off2", "x", "same at frame offset 2"),
    _fx("fx_c06_capture_off0_idx0", "x", "register_upvalue x2 (sharing) + write_upvalue + read_upvalue from a callee frame; enclosing frame at offset 0, local 0"),
    _fx("fx_c06_capture_off2_idx1", "x", "same, enclosing frame at offset 2, local 1"),
    _fx("fx_c06_capture_off3_idx0", "x", "same, enclosing frame at offset 3, local 0"),
    _fx("fx_c06_close_keeps_value_off0", "thorough", "close_upvalues at scope exit keeps the last value; offset 0"),
    _fx("fx_c06_close_keeps_value_off2", "quick", "same at frame offset 2"),
    _fx("fx_c06_return_closes_upvalues", "x", "instr_return closes the upvalues of the frame it leaves"),
    _fx("fx_c06_two_locals_ascending_then_return", "x", "two locals captured in ascending slot order by two closures, then return: both closed, both keep their value"),
    _fx("fx_c06_two_locals_descending_then_return", "x", "same, captured in descending slot order"),
    _fx("fx_c06_inner_scope_closes_only_its_variable", "x", "outer local stays open while an inner local is captured and its scope ends"),
]
