"""Properties not (or not yet) claimed, with the reason. Entries for claimed properties are ignored."""
NOT_BUILT = "check not built yet in this session (planned, see DESIGN.md §3); no claim is made"
NA = {f"C{i:02d}": NOT_BUILT for i in range(1, 20)}
NA["C08"] = ("name resolution is decided inside compile(); compile() does not close under Kani/CBMC even with an empty injected std module "
             "(25 min, 4.5 GB, DESIGN.md 0). The resolution units were then driven one by one through hooks (resolve_function with "
             "solver-chosen sets of existing functions, add_function, super_depth): written, run natively (they exposed four genuine "
             "defects, all repaired by fix: commits), but under Kani every resolve_function harness - even one called name with at most "
             "four solver-chosen functions - ran past 25 minutes (String building through iterator chains, the two-way string searcher "
             "of split_once, hashbrown iteration), super_depth on 7 symbolic bytes past 5 minutes, add_function (two registrations, real format!) past 28 minutes. With no harness closing there is "
             "no solver verdict to report, so no claim is made; the harnesses are kept as tier x in harness/src/c08.rs")
NA["C09"] = ("every clause needs the VM running script callbacks over heap tables (ForEach + DynamicCall + SetProperty per element, "
             "or run_function re-entry plus sort_by); whole-VM runs beyond ~5 dispatches and table histories beyond one operation do not "
             "close under Kani/CBMC (DESIGN.md §0); the comparator is covered by C19, table operations by C07, re-entry by C18")
NA["C02"] = ("the collector's mark phase does not close under Kani/CBMC: RuntimeData::gc pops `&mut CaoLangObject` from a worklist and "
             "matches on the body of a heap object that was allocated as raw bytes, so CBMC explores every body kind (table iteration, "
             "closure upvalue lists, ...) for every worklist entry; measured: gc() on a heap of ONE rooted object, two strings with "
             "solver-chosen roots, table->string, closure->upvalue->string, StringLiteral under a forced-collection schedule (function "
             "level and through _run): all nine harnesses time out at 600 s / 3-8 GB (only 'gc() frees one unreachable function object' "
             "closes, registered under C05). The harnesses are kept as tier x in harness/src/c02.rs; run natively under the quarantine hook "
             "they reproduce two rooting gaps (DESIGN.md 3, 'noted'), but a native run is not a solver verdict, so no claim is made")
NA["C11"] = ("the round-trip goes through serde format crates (serde_json / ciborium / bincode / serde_yaml: byte-wise parsers whose loops "
             "grow with the input) and, for programs, through compile(); neither closes under Kani/CBMC. The hand-written map visitors "
             "of CaoHashMap/HandleTable were driven through an in-memory serde back end: with zero entries they close (2 harnesses), with "
             "one or more entries (deserializer insert + growth on Value/String payloads) all ten harnesses time out or run out of "
             "memory (DESIGN.md 0); a claim restricted to empty maps would say nothing about the property")
