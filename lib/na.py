"""Properties not (or not yet) claimed, with the reason. Entries for claimed properties are ignored."""
NOT_BUILT = "check not built yet in this session (planned, see DESIGN.md §3); no claim is made"
NA = {f"C{i:02d}": NOT_BUILT for i in range(1, 20)}
NA["C08"] = ("name resolution is decided entirely inside compile() (String joins, HashMap<String,_>), which Kani cannot execute "
             "within reach (>20 min for a one-card module, DESIGN.md §0); once the compiler runs natively no symbolic variable is left, "
             "so solver-based checking of the real code does not apply")
NA["C09"] = ("every clause needs the VM running script callbacks over heap tables (ForEach + DynamicCall + SetProperty per element, "
             "or run_function re-entry plus sort_by); whole-VM runs beyond ~5 dispatches and table histories beyond one operation do not "
             "close under Kani/CBMC (DESIGN.md §0); the comparator is covered by C19, table operations by C07, re-entry by C18")
