#!/usr/bin/env python3
"""Driver for the solver-based checks of cao-lang (Kani / CBMC over the real code).

./check <PROPERTY> [--tier quick|thorough] [--only REGEX] [--jobs N] [--replay FILE]

Exit codes: 0 = every harness of the tier was discharged by the solver (known findings are
printed as KNOWN-FINDING lines); 1 = a counterexample was found, replayed natively against the
real build and reproduced (VIOLATION line printed); 2 = the machinery could not decide
(timeout, out of memory, build failure, a counterexample that does not reproduce natively).
"""
import argparse
import fnmatch
import json
import os
import re
import shutil
import subprocess
import sys
import time

ROOT = os.path.dirname(os.path.dirname(os.path.abspath(__file__)))
HARNESS_DIR = os.path.join(ROOT, "harness")
BUILD = os.path.join(ROOT, ".build")
REPO = "/repo"
sys.path.insert(0, os.path.join(ROOT, "lib"))
import specs  # noqa: E402

ENV = dict(os.environ)
ENV["CARGO_NET_OFFLINE"] = "true"
ENV.pop("RUSTFLAGS", None)


def log(*a):
    print(*a, flush=True)


def sh(cmd, timeout=None, cwd=None, env=None):
    t0 = time.time()
    try:
        p = subprocess.run(cmd, cwd=cwd, env=env or ENV, stdout=subprocess.PIPE,
                           stderr=subprocess.STDOUT, timeout=timeout, text=True, errors="replace")
        return p.returncode, p.stdout, time.time() - t0
    except subprocess.TimeoutExpired as e:
        out = e.stdout or ""
        if isinstance(out, bytes):
            out = out.decode(errors="replace")
        return -9, out, time.time() - t0


def prepare():
    os.makedirs(BUILD, exist_ok=True)
    src = os.path.join(REPO, "Cargo.lock")
    dst = os.path.join(HARNESS_DIR, "Cargo.lock")
    if os.path.exists(src):
        try:
            same = open(src).read() == open(dst).read()
        except OSError:
            same = False
        if not same and not os.path.exists(dst):
            shutil.copy(src, dst)


def repo_state():
    rc, out, _ = sh(["git", "-C", REPO, "rev-parse", "HEAD"])
    head = out.strip() if rc == 0 else "?"
    rc, out, _ = sh(["git", "-C", REPO, "status", "--porcelain", "--untracked-files=no"])
    return head, bool(out.strip())


# ----------------------------------------------------------------------------- kani

THREAD_START = re.compile(r"^Thread (\d+): Checking harness (\S+?)\.\.\.")
THREAD_BLOCK = re.compile(r"^Thread (\d+): *$")
SINGLE_START = re.compile(r"^Checking harness (\S+?)\.\.\.")


def parse_kani(out):
    """-> {qualified harness: dict(status, failed, checks, time, cover)}"""
    res = {}
    cur = None
    thread_h = {}
    lines = out.splitlines()

    def new(h):
        res.setdefault(h, dict(status="UNKNOWN", failed=[], checks=0, nfailed=0, time=0.0,
                               cover_sat=0, cover_total=0, raw=[]))
        return h

    for ln in lines:
        m = THREAD_START.match(ln)
        if m:
            thread_h[m.group(1)] = new(m.group(2))
            continue
        m = THREAD_BLOCK.match(ln)
        if m:
            cur = thread_h.get(m.group(1))
            continue
        m = SINGLE_START.match(ln)
        if m:
            cur = new(m.group(1))
            continue
        if ln.startswith("Manual Harness Summary") or ln.startswith("Complete - "):
            cur = None
            continue
        if cur is None:
            continue
        r = res[cur]
        r["raw"].append(ln)
        m = re.match(r"^ \*\* (\d+) of (\d+) failed", ln)
        if m:
            r["nfailed"], r["checks"] = int(m.group(1)), int(m.group(2))
        m = re.match(r"^ \*\* (\d+) of (\d+) cover properties satisfied", ln)
        if m:
            r["cover_sat"], r["cover_total"] = int(m.group(1)), int(m.group(2))
        m = re.match(r'^Failed Checks: (.*)$', ln)
        if m:
            d = m.group(1).strip()
            if d.startswith('"') and d.endswith('"'):
                d = d[1:-1]
            r["failed"].append(d)
        if ln.startswith("VERIFICATION:- SUCCESSFUL"):
            r["status"] = "SUCCESSFUL"
        elif ln.startswith("VERIFICATION:- FAILED"):
            r["status"] = "FAILED"
        m = re.match(r"^Verification Time: ([0-9.]+)s", ln)
        if m:
            r["time"] = float(m.group(1))
        if "CBMC timed out" in ln or "timed out" in ln.lower():
            r["status"] = "TIMEOUT"
        if "Status: ERROR" in ln or "CBMC failed" in ln or "out of memory" in ln.lower():
            if r["status"] != "TIMEOUT":
                r["status"] = "ERROR"
    return res


def slot_dir(slot):
    # VERIF_SLOT_BASE: development only - lets several ./check processes run side by side
    # without sharing a Kani target dir (slots 0..5 are warmed by setup.sh)
    base = int(os.environ.get("VERIF_SLOT_BASE", "0") or 0)
    d = os.path.join(BUILD, f"kani-w{slot + base}")
    if base and not os.path.isdir(d) and os.path.isdir(os.path.join(BUILD, "kani-w0")):
        shutil.copytree(os.path.join(BUILD, "kani-w0"), d, symlinks=True)
    return d


def clean_kani_out(target):
    """each harness selection gets its own build dir under .../build/cao-verif/<hash>; drop old ones"""
    d = os.path.join(target, "kani", "x86_64-unknown-linux-gnu", "debug", "build", "cao-verif")
    if os.path.isdir(d):
        for x in os.listdir(d):
            shutil.rmtree(os.path.join(d, x), ignore_errors=True)


def resolve_unwindset(h, target, stubbing=False):
    """Limits are written against demangled function paths (regex, optionally '#<loop index>');
    the mangled ids CBMC wants are read from the pretty_name_map.json that code generation leaves
    behind for this harness. -> (cbmc args, log text)"""
    want = list((h.get("limits") or {}).items())
    if not want:
        return [], ""
    cmd = ["cargo", "kani", "--target-dir", target, "--exact", "--harness", h["qual"],
           "--only-codegen", "-Z", "unstable-options"]
    if stubbing:
        cmd += ["-Z", "stubbing"]
    rc, out, dt = sh(cmd, timeout=1800, cwd=HARNESS_DIR)
    text = f"$ {' '.join(cmd)}\n[rc={rc} {dt:.1f}s]\n{out[-3000:]}\n"
    import glob
    entries = {}
    outdir = os.path.join(target, "kani", "*", "debug", "build", "cao-verif", "*", "out")
    # loop ids of the linked goto binary: "<mangled function>.<n>"
    loops = {}
    if any(p.endswith("#*") for p, _ in want):
        for f in glob.glob(os.path.join(outdir, "*.out")):
            if f.endswith(".symtab.out"):
                continue
            rc2, out2, _ = sh(["cbmc", "--show-loops", f], timeout=600)
            for ln in out2.splitlines():
                m2 = re.match(r"^Loop (\S+)\.(\d+):", ln)
                if m2:
                    loops.setdefault(m2.group(1), set()).add(m2.group(2))
    for f in glob.glob(os.path.join(outdir, "*.pretty_name_map.json")):
        try:
            m = json.load(open(f))
        except Exception:
            continue
        for mangled, pretty in m.items():
            if not pretty:
                continue
            for pat, lim in want:
                loop = None
                p = pat
                if "#" in pat:
                    p, loop = pat.rsplit("#", 1)
                if re.search(p, pretty):
                    if loop is None:
                        keys = [mangled]
                    elif loop == "*":
                        keys = [f"{mangled}.{n}" for n in sorted(loops.get(mangled, []))]
                    else:
                        keys = [f"{mangled}.{loop}"]
                    for key in keys:
                        # several patterns may hit the same loop: the most specific (last) wins
                        entries[key] = lim
    text += "unwindset: " + json.dumps(entries, indent=1) + "\n"
    if not entries:
        return [], text
    return ["--unwindset", ",".join(f"{k}:{v}" for k, v in sorted(entries.items()))], text


def run_one(h, slot, tier_cap, mem_kb):
    """one harness = one cargo-kani process in its own target dir -> (result dict, log text)"""
    target = slot_dir(slot)
    clean_kani_out(target)
    stub = bool(h.get("stubbing"))
    uw, text = resolve_unwindset(h, target, stub)
    cbmc_args = list(h.get("cbmc_args") or []) + os.environ.get("VERIF_EXTRA_CBMC", "").split() + uw
    tmo = h.get("timeout", tier_cap)
    def build_cmd(playback):
        c = ["cargo", "kani", "--target-dir", target, "--exact", "--harness", h["qual"],
             "--no-assertion-reach-checks", "-Z", "unstable-options",
             "--harness-timeout", f"{int(tmo)}s"]
        if playback:
            c += ["-Z", "concrete-playback", "--concrete-playback=print"]
        if stub:
            c += ["-Z", "stubbing"]
        if cbmc_args:
            c += ["--cbmc-args"] + cbmc_args
        return c

    # first without concrete playback (asking for it makes the formula about three times larger);
    # a harness that fails is run again with playback to obtain the counterexample values
    cmd = build_cmd(False)
    rc, out, dt = sh(["bash", "-c", f"ulimit -s unlimited 2>/dev/null; ulimit -v {mem_kb}; exec \"$@\"", "x"] + cmd,
                     timeout=tmo + 900, cwd=HARNESS_DIR)
    first = parse_kani(out).get(h["qual"])
    if first is not None and first["status"] == "FAILED" and first["failed"]:
        fail_blocks = []
        ls = out.splitlines()
        for i, ln in enumerate(ls):
            if "Status: FAILURE" in ln:
                fail_blocks.append("\n".join(ls[max(0, i - 1):i + 3]))
        text += (f"$ {' '.join(cmd)}\n[rc={rc} {dt:.1f}s] FAILED: {first['failed'][:5]}\n"
                 + "\n".join(fail_blocks[:12]) + "\n-> re-running with concrete playback\n")
        cmd = build_cmd(True)
        rc, out, dt2 = sh(["bash", "-c", f"ulimit -s unlimited 2>/dev/null; ulimit -v {mem_kb}; exec \"$@\"", "x"] + cmd,
                          timeout=tmo + 900, cwd=HARNESS_DIR)
        second = parse_kani(out).get(h["qual"])
        if second is None or second["status"] != "FAILED" or not second["failed"]:
            # keep the verdict of the first run; there are just no replay values
            out_keep = out
            out = out_keep
            res_override = first
        else:
            res_override = None
        dt += dt2
    else:
        res_override = None
    slim = "\n".join(l for l in out.splitlines()
                     if not l.startswith(("Unwinding ", "Not unwinding ")))
    text += f"$ {' '.join(cmd)}\n[rc={rc} {dt:.1f}s]\n{slim}\n"
    res = parse_kani(out)
    r = res_override if res_override is not None else res.get(h["qual"])
    if r is None:
        r = dict(status="MISSING", failed=[], checks=0, nfailed=0, time=0.0,
                 cover_sat=0, cover_total=0, raw=[])
        if "error: could not compile" in out or "error[E" in out:
            r["status"] = "BUILD-FAILED"
            r["tail"] = "\n".join(out.splitlines()[-30:])
    if rc == -9:
        r["status"] = "TIMEOUT"
    if r["status"] == "FAILED" and not r["failed"]:
        r["status"] = "ERROR"  # CBMC died (status 1, out of memory, ...): never a verdict
    if r["status"] == "FAILED" and any("not currently supported by Kani" in f or "unsupported" in f.lower()
                                       for f in r["failed"]):
        # the harness reaches a construct Kani does not model (a syscall, inline asm, ...): every
        # other failed check on that path is an artefact of the placeholder, never a verdict
        r["status"] = "ERROR"
        r["tail"] = "unsupported construct reached: " + "; ".join(r["failed"][:3])
    m = re.search(r"size of program expression: (\d+) steps", out)
    r["steps"] = int(m.group(1)) if m else 0
    r["solver_s"] = round(sum(float(x) for x in re.findall(r"Runtime decision procedure: ([0-9.]+)s", out)), 2)
    r["symex_s"] = round(sum(float(x) for x in re.findall(r"Runtime Symex: ([0-9.]+)s", out)), 2)
    r["playback"] = extract_playback(out)
    r["wall"] = round(dt, 1)
    r.pop("raw", None)
    clean_kani_out(target)
    return r, text


def run_all(hs, jobs, tier_cap, logf, mem_kb):
    import queue
    import threading
    q = queue.Queue()
    # longest first
    for h in sorted(hs, key=lambda h: -h.get("cost", 1)):
        q.put(h)
    results = {}
    lock = threading.Lock()

    def worker(slot):
        while True:
            try:
                h = q.get_nowait()
            except queue.Empty:
                return
            try:
                r, text = run_one(h, slot, tier_cap, mem_kb)
            except Exception as e:  # noqa
                r, text = dict(status="ERROR", failed=[], checks=0, nfailed=0, time=0.0, cover_sat=0,
                               cover_total=0, steps=0, solver_s=0, symex_s=0, playback=[], wall=0,
                               tail=repr(e)), repr(e)
            with lock:
                results[h["name"]] = r
                logf.write(f"===== {h['name']} (slot {slot})\n{text}\n")
                logf.flush()
                log(f"  {h['name']}: {r['status']} checks={r['checks']} "
                    f"t={r.get('wall', 0)}s" + (f" failed={r['failed'][:3]}" if r["failed"] else ""))

    ths = [threading.Thread(target=worker, args=(i,)) for i in range(min(jobs, len(hs)))]
    for t in ths:
        t.start()
    for t in ths:
        t.join()
    return results


PLAY_VEC = re.compile(r"^\s*vec!\[([0-9, ]*)\],?\s*$")


def extract_playback(out):
    """-> list of (check description, [[bytes]...]) from --concrete-playback=print output"""
    tests = []
    cur_desc = None
    cur = None
    for ln in out.splitlines():
        m = re.match(r"^/// Check for `(\w+)`: \"?(.*?)\"?$", ln)
        if m:
            cur_desc = (m.group(1), m.group(2).strip('"'))
            continue
        if "let concrete_vals" in ln:
            cur = []
            continue
        if cur is not None:
            m = PLAY_VEC.match(ln)
            if m:
                body = m.group(1).strip()
                cur.append([int(x) for x in body.split(",") if x.strip()] if body else [])
                continue
            if "kani::concrete_playback_run" in ln:
                tests.append((cur_desc, cur))
                cur = None
    return tests


def hexvals(vals):
    return ",".join("".join(f"{b:02x}" for b in v) for v in vals)


_native_built = {}


def build_native(profile, logf):
    if profile in _native_built:
        return _native_built[profile]
    cmd = ["cargo", "build", "--offline", "--bin", "replay"]
    if profile == "release":
        cmd.append("--release")
    env = dict(ENV)
    env["CARGO_TARGET_DIR"] = os.path.join(BUILD, "native")
    rc, out, dt = sh(cmd, timeout=1200, cwd=HARNESS_DIR, env=env)
    logf.write(f"$ {' '.join(cmd)}\n[rc={rc} {dt:.1f}s]\n{out[-3000:]}\n")
    path = os.path.join(BUILD, "native", "debug" if profile == "dev" else "release", "replay")
    _native_built[profile] = path if rc == 0 and os.path.exists(path) else None
    return _native_built[profile]


def native_replay(name, vals, logf, watchdog=20):
    """-> dict profile -> (outcome, message). outcome in reproduced|completed|mismatch|hang|crash|nobuild"""
    res = {}
    for profile in ("dev", "release"):
        exe = build_native(profile, logf)
        if not exe:
            res[profile] = ("nobuild", "")
            continue
        env = dict(ENV)
        env["RUST_BACKTRACE"] = "0"
        rc, out, dt = sh([exe, name, hexvals(vals)], timeout=watchdog, env=env)
        logf.write(f"$ replay[{profile}] {name} {hexvals(vals)}\n[rc={rc}]\n{out[-2000:]}\n")
        if rc == -9:
            res[profile] = ("hang", f"no result after {watchdog}s")
        elif rc == 0:
            res[profile] = ("completed", "")
        elif rc == 101:
            m = re.search(r"panicked at [^\n]*\n([^\n]*)", out)
            res[profile] = ("reproduced", m.group(1).strip() if m else out.strip()[-200:])
        elif rc == 3:
            res[profile] = ("mismatch", out.strip()[-200:])
        elif rc < 0 or rc >= 128:
            res[profile] = ("crash", f"signal/abort rc={rc}: " + out.strip()[-200:])
        else:
            res[profile] = ("other", f"rc={rc} " + out.strip()[-200:])
    return res


ENGINE_ONLY_UB = re.compile(r"__rust_alloc must be called with a size greater than 0|__rust_dealloc|"
                            r"deallocated dynamic object|dead object|double free|free argument|"
                            r"dereference failure: (pointer invalid|pointer NULL|pointer outside object bounds|"
                            r"invalid integer address)")
IGNORED_CHECK = re.compile(r"^NaN on (addition|subtraction|multiplication|division)")


def is_unwind_label(lbl):
    return "unwinding assertion" in lbl or "recursion unwinding" in lbl.lower()


# ----------------------------------------------------------------------------- findings

def load_findings():
    p = os.path.join(ROOT, "known_findings.json")
    if not os.path.exists(p):
        return []
    return json.load(open(p)).get("findings", [])


def match_finding(findings, prop, harness, label):
    for f in findings:
        if f.get("status", "open") != "open":
            continue  # "fixed" entries suppress nothing
        if f["property"] != prop:
            continue
        if not fnmatch.fnmatch(harness, f.get("harness", "*")):
            continue
        if f["label"] == label:
            return f
    return None


# ----------------------------------------------------------------------------- main

def main():
    ap = argparse.ArgumentParser()
    ap.add_argument("prop")
    ap.add_argument("--tier", default=os.environ.get("VERIF_TIER", "quick"),
                    choices=["quick", "thorough"])
    ap.add_argument("--only", default=None)
    ap.add_argument("--jobs", type=int, default=int(os.environ.get("VERIF_JOBS", "5")))
    ap.add_argument("--replay", default=None)
    ap.add_argument("--no-evidence", action="store_true")
    ap.add_argument("--all-tiers", action="store_true",
                    help="probing only: also select harnesses of tier x (needs --only, writes no evidence)")
    args = ap.parse_args()
    if args.all_tiers:
        args.no_evidence = True
    prop = args.prop
    seed = int(os.environ.get("VERIF_SEED", "0") or 0)
    t_start = time.time()
    prepare()
    os.makedirs(os.path.join(BUILD, "logs"), exist_ok=True)
    logf = open(os.path.join(BUILD, "logs", f"{prop}.{args.tier}.log"), "w")

    if args.replay:
        return replay_file(args.replay, logf)

    if prop not in specs.PROPS:
        log(f"unknown property {prop}")
        return 2
    P = specs.PROPS[prop]
    hs = specs.select(prop, args.tier, seed)
    if args.all_tiers:
        hs = list(P["harnesses"])
    if args.only:
        hs = [h for h in hs if re.search(args.only, h["name"])]
    if not hs:
        log("no harnesses selected")
        return 2
    tier_cap = P.get("cap", {}).get(args.tier, 600 if args.tier == "quick" else 3600)
    findings = load_findings()
    head, dirty = repo_state()
    log(f"[{prop}] tier={args.tier} seed={seed} harnesses={len(hs)} repo={head[:10]}{'+dirty' if dirty else ''}")

    mem_kb = int(float(os.environ.get("VERIF_MEM_GB", P.get("mem_gb", 14))) * 1024 * 1024)
    jobs = min(args.jobs, P.get("jobs", args.jobs))
    light = [h for h in hs if not h.get("heavy")]
    heavy = [h for h in hs if h.get("heavy")]
    results = run_all(light, jobs, tier_cap, logf, mem_kb) if light else {}
    if heavy:
        # memory-hungry harnesses: few at a time, each with a large address-space limit
        results.update(run_all(heavy, min(2, jobs), tier_cap, logf, 28 * 1024 * 1024))
    machinery = []
    for h in hs:
        if results[h["name"]]["status"] == "BUILD-FAILED":
            log(f"[{prop}] BUILD FAILED (harness crate does not compile against /repo):\n"
                + results[h["name"]].get("tail", ""))
            machinery.append("build failed")
            break

    violations = []      # (harness, label, replay path)
    known_hits = []      # (finding, harness, label)
    undecided = []
    discharged = 0
    samples = []
    replays_done = 0
    confirmed_labels = {}
    for h in hs:
        r = results[h["name"]]
        st = r["status"]
        entry = dict(harness=h["name"], bounds=h.get("bounds", ""), what=h.get("what", ""),
                     status=st, checks=r["checks"], verification_s=round(r["time"], 2),
                     program_steps=r.get("steps", 0), solver_s=r.get("solver_s", 0),
                     symex_s=r.get("symex_s", 0))
        if st == "SUCCESSFUL":
            if r["cover_total"] > 0 and r["cover_sat"] < r["cover_total"]:
                undecided.append((h["name"], "vacuous: cover witness unreachable"))
                entry["status"] = "VACUOUS"
            else:
                discharged += 1
        elif st == "FAILED":
            # CBMC's float NaN checks are not Rust panics: producing NaN is a defined IEEE result
            labels = [l for l in dict.fromkeys(r["failed"]) if not IGNORED_CHECK.match(l)]
            # "harness.*" labels are preconditions of the harness itself (e.g. the capacity a
            # constructor hands out): if one fails the harness no longer fits the code and the
            # check cannot decide - that is not a violation of the property
            hl = [l for l in labels if l.startswith("harness.")]
            if hl:
                undecided.append((h["name"], "harness precondition no longer holds: " + "; ".join(hl)))
                entry["status"] = "HARNESS-PRECONDITION"
                entry["failed_checks"] = labels
                samples.append(entry)
                continue
            if not labels:
                if r["cover_total"] > 0 and r["cover_sat"] < r["cover_total"]:
                    undecided.append((h["name"], "vacuous: cover witness unreachable"))
                    entry["status"] = "VACUOUS"
                else:
                    discharged += 1
                    entry["status"] = "SUCCESSFUL (ignoring CBMC NaN checks)"
                samples.append(entry)
                continue
            unknown = []
            for lbl in labels:
                f = match_finding(findings, prop, h["name"], lbl)
                if f:
                    known_hits.append((f, h["name"], lbl))
                else:
                    unknown.append(lbl)
            entry["failed_checks"] = labels
            if not unknown:
                entry["status"] = "KNOWN-FINDING"
            elif all(l in confirmed_labels for l in unknown):
                # the same check already failed and was replayed natively on another harness
                entry["counterexample"] = dict(same_as=[confirmed_labels[l] for l in unknown])
                for l in unknown:
                    violations.append((h["name"], l, confirmed_labels[l]))
            else:
                rep = confirm(prop, h, unknown, logf, tier_cap, r)
                for (lbl, path) in rep["confirmed"]:
                    confirmed_labels.setdefault(lbl, path)
                replays_done += rep["replays"]
                entry["counterexample"] = rep
                if rep["confirmed"]:
                    for (lbl, path) in rep["confirmed"]:
                        violations.append((h["name"], lbl, path))
                else:
                    undecided.append((h["name"], "counterexample not reproduced natively: "
                                      + "; ".join(unknown)))
        else:
            undecided.append((h["name"], st))
        samples.append(entry)

    # ------------------------------------------------------------- report
    seen = set()
    for f, hn, lbl in known_hits:
        k = (f["property"], f["label"], f.get("harness", "*"))
        if k in seen:
            continue
        seen.add(k)
        log(f"KNOWN-FINDING: property={prop} {f['what']} [harness={hn} check={lbl}]")
    for hn, why in undecided:
        log(f"UNDECIDED harness={hn}: {why}")
    for hn, lbl, path in violations:
        log(f"VIOLATION property={prop} replay={path}")
        log(f"  harness={hn} failed check: {lbl}")

    wall = time.time() - t_start
    total_checks = sum(results[h["name"]]["checks"] for h in hs)
    steps = sum(h.get("steps", 1) for h in hs)
    ev = dict(
        property_id=prop, tier=args.tier, seed=seed, level="model_checking",
        coverage=dict(
            states=max(1, total_checks),
            transitions=max(1, sum(results[h["name"]].get("steps", 0) for h in hs)),
            symbolic_operations=steps,
            traces_validated_against_impl=replays_done,
            samples=samples,
            evaluations=len(hs),
            distinct_nontrivial=discharged,
            obligations=len(hs), discharged=discharged,
            rule=("one obligation per Kani proof harness (concrete shape/capacity/kind tuple, "
                  "symbolic data); 'states' = CBMC verification conditions decided, 'transitions' = "
                  "SSA program steps of the unwound programs CBMC encoded; a harness counts "
                  "as discharged only if CBMC returned SUCCESSFUL with every unwinding assertion "
                  "proved and its reachability witness (kani::cover at the last line) satisfied"),
            explanation=P.get("explanation", ""),
            functions_encoded=P.get("functions", []),
            bounds=P.get("bounds", ""),
            outside_claim=P.get("outside", ""),
            engine="Kani 0.68.0 / CBMC 6.11.0 (CaDiCaL), dev-profile semantics",
            solver_time_s=round(sum(results[h["name"]]["time"] for h in hs), 1),
            known_findings=[dict(label=f["label"], what=f["what"], harness=hn) for f, hn, _ in known_hits],
            undecided=[dict(harness=a, why=b) for a, b in undecided],
            repo_head=head, repo_dirty=dirty,
            exhaustive=False,
        ),
        assumptions=P.get("assumptions", []),
        wall_s=round(wall, 1),
        violations=len(violations),
    )
    if not args.no_evidence and not args.only:
        os.makedirs(os.path.join(ROOT, "evidence"), exist_ok=True)
        with open(os.path.join(ROOT, "evidence", f"{prop}.json"), "w") as f:
            json.dump(ev, f, indent=1)
    log(f"[{prop}] harnesses={len(hs)} discharged={discharged} known={len(seen)} "
        f"violations={len(violations)} undecided={len(undecided)} wall={wall:.0f}s")
    if violations:
        return 1
    if undecided or machinery:
        return 2
    return 0


def confirm(prop, h, labels, logf, tier_cap, r=None):
    """native replay (dev + release) of the concrete values Kani printed for each failed check"""
    out_rep = dict(labels=labels, confirmed=[], replays=0, detail=[])
    tests = (r or {}).get("playback") or []
    os.makedirs(os.path.join(ROOT, "replays", prop), exist_ok=True)
    for lbl in labels:
        vals = None
        for (desc, v) in tests:
            if desc and desc[0] != "cover" and (desc[1] == lbl or lbl in desc[1] or desc[1] in lbl):
                vals = v
                break
        fallback = False
        if vals is None:
            # the playback run produced no values (it may have run out of time or memory): try the
            # all-zero input natively - a native reproduction is a reproduction whatever the input
            vals = []
            fallback = True
        nat = native_replay(h["name"], vals, logf, watchdog=h.get("replay_watchdog", 20))
        out_rep["replays"] += 1
        ok = False
        for prof, (outcome, msg) in nat.items():
            if outcome == "reproduced":
                ok = True
            if outcome == "hang" and (is_unwind_label(lbl) or h.get("hang_is_violation")):
                ok = True
            if outcome == "crash":
                ok = True
        d = dict(label=lbl, values=hexvals(vals), native={k: list(v) for k, v in nat.items()})
        if fallback:
            d["values_source"] = "no playback values from Kani; all-zero input tried"
        if not ok and ENGINE_ONLY_UB.search(lbl):
            # undefined behaviour at the level of the language standard (e.g. a zero-size allocation,
            # a read of freed memory that happens to still hold the old bytes): no native run can
            # confirm it; it is reported on the engine's verdict and marked as such
            ok = True
            d["engine_only"] = True
        out_rep["detail"].append(d)
        if ok:
            path = os.path.join(ROOT, "replays", prop, f"{h['name']}.json")
            json.dump(dict(property=prop, harness=h["name"], label=lbl, values=hexvals(vals),
                           native=d["native"],
                           how=f"./check {prop} --replay {path}"), open(path, "w"), indent=1)
            out_rep["confirmed"].append((lbl, path))
    return out_rep


def replay_file(path, logf):
    d = json.load(open(path))
    vals = [[int(g[2 * i:2 * i + 2], 16) for i in range(len(g) // 2)]
            for g in d["values"].split(",")] if d["values"] else []
    nat = native_replay(d["harness"], vals, logf)
    log(json.dumps(nat, indent=1))
    return 1 if any(o in ("reproduced", "hang", "crash") for o, _ in nat.values()) else 0


if __name__ == "__main__":
    sys.exit(main())
