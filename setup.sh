#!/bin/bash
# Run once after a fresh restore (offline). Builds the native replay binary and warms the Kani
# build of the harness crate so that the first check does not pay the dependency compile.
set -u
cd "$(dirname "$0")"
export CARGO_NET_OFFLINE=true
mkdir -p .build/logs evidence replays
[ -f harness/Cargo.lock ] || cp /repo/Cargo.lock harness/Cargo.lock
( cd harness && CARGO_TARGET_DIR=../.build/native cargo build --offline --bin replay ) > .build/logs/setup-native.log 2>&1 || { echo "native build failed"; tail -20 .build/logs/setup-native.log; exit 1; }
( cd harness && cargo kani --target-dir ../.build/kani --only-codegen --exact --harness c14::c14_vs_cap1_k3 ) > .build/logs/setup-kani.log 2>&1 || { echo "kani warm-up build failed"; tail -20 .build/logs/setup-kani.log; exit 1; }
echo "setup ok"
