#!/bin/bash
# Run once after a fresh restore (offline). Builds the native replay binary and warms the Kani
# build of the harness crate in every worker slot (each worker has its own cargo target dir) so
# that the first check does not pay the dependency compile.
set -u
cd "$(dirname "$0")"
export CARGO_NET_OFFLINE=true
mkdir -p .build/logs evidence replays
[ -f harness/Cargo.lock ] || cp /repo/Cargo.lock harness/Cargo.lock
( cd harness && CARGO_TARGET_DIR=../.build/native cargo build --offline --bin replay ) > .build/logs/setup-native.log 2>&1 || { echo "native build failed"; tail -20 .build/logs/setup-native.log; exit 1; }
JOBS=${VERIF_JOBS:-6}
( cd harness && cargo kani --target-dir ../.build/kani-w0 --only-codegen --exact --harness c14::c14_vs_cap1_k3 ) > .build/logs/setup-kani-0.log 2>&1 || { echo "kani warm-up build failed"; tail -20 .build/logs/setup-kani-0.log; exit 1; }
for i in $(seq 1 $((JOBS-1))); do
  [ -d .build/kani-w$i ] || cp -r .build/kani-w0 .build/kani-w$i
done
echo "setup ok"
