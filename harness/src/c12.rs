//! C12 — CaoHashMap is a faithful map.
//!
//! Inductive-step harnesses over the real code: the pre-state is an *arbitrary* bucket array of
//! a concrete capacity C (which buckets are occupied, every key and value are solver-chosen)
//! constrained only by the representation invariant
//!     (I1) an occupied bucket stores hash(key) of its key,
//!     (I2) no key is stored twice,
//!     (I3) the map's own probe sequence (`find_ind`) ends at the bucket that stores the key,
//!     (I4) the load is within what `insert` leaves behind (so at least one bucket is empty);
//! one operation with solver-chosen arguments is executed; afterwards the invariant must hold
//! again (at the new capacity if the operation grew the map) and the abstract content, observed
//! through `get` on a solver-chosen key, must be what a mathematical map gives. Together with
//! the base case (a new map satisfies the invariant) this covers operation histories of any
//! length at the capacities listed in the harness table.
use crate::Src;
use cao_lang::collections::hash_map::{verif_hash, verif_max_load, CaoHashMap};
use cao_lang::verif_hooks::{AllocError, Allocator, SysAllocator};
use std::alloc::Layout;
use std::ptr::NonNull;

type Map = CaoHashMap<u8, u8>;

const MAXC: usize = 20;

pub struct Pre<const C: usize> {
    pub occ: [bool; C],
    pub keys: [u8; C],
    pub vals: [u8; C],
    pub n: usize,
}

impl<const C: usize> Pre<C> {
    pub fn lookup(&self, q: u8) -> Option<u8> {
        let mut j = 0;
        while j < C {
            if self.occ[j] && self.keys[j] == q {
                return Some(self.vals[j]);
            }
            j += 1;
        }
        None
    }
}

/// largest entry count `insert` can leave behind at capacity c (mirrors `needs_grow`)
fn load_limit(c: usize) -> usize {
    let mut n = 0;
    while n + 1 <= c && !((n + 1) as f32 > c as f32 * verif_max_load()) {
        n += 1;
    }
    n
}

/// arbitrary valid pre-state at capacity C
pub fn sym_state<S: Src, const C: usize>(s: &mut S) -> (Map, Pre<C>) {
    sym_state_in::<S, SysAllocator, C>(s, SysAllocator)
}

pub fn sym_state_in<S: Src, A: Allocator, const C: usize>(
    s: &mut S,
    alloc: A,
) -> (CaoHashMap<u8, u8, A>, Pre<C>) {
    let mut m = CaoHashMap::<u8, u8, A>::with_capacity_in(C, alloc).unwrap();
    assert!(m.capacity() == C, "harness.c12.capacity_as_requested");
    let mut pre = Pre::<C> {
        occ: [false; C],
        keys: [0; C],
        vals: [0; C],
        n: 0,
    };
    let mut j = 0;
    while j < C {
        pre.occ[j] = s.bool();
        pre.keys[j] = s.u8();
        pre.vals[j] = s.u8();
        if pre.occ[j] {
            let h = verif_hash(&pre.keys[j]);
            unsafe { m.verif_set_slot(j, h, pre.keys[j], pre.vals[j]) };
            pre.n += 1;
        }
        j += 1;
    }
    // I4
    s.assume(pre.n <= load_limit(C));
    // I2
    let mut j = 0;
    while j < C {
        let mut i = 0;
        while i < j {
            s.assume(!(pre.occ[i] && pre.occ[j] && pre.keys[i] == pre.keys[j]));
            i += 1;
        }
        j += 1;
    }
    // I3 (I1 holds by construction)
    let mut j = 0;
    while j < C {
        if pre.occ[j] {
            let h = verif_hash(&pre.keys[j]);
            s.assume(m.verif_find_ind(h, &pre.keys[j]) == j);
        }
        j += 1;
    }
    (m, pre)
}

/// representation invariant on the post-state, at whatever capacity the map has now.
/// "for every bucket j" and "for every pair (i, j)" are expressed with solver-chosen indices.
pub fn check_inv<S: Src>(m: &Map, s: &mut S) {
    let cap = m.capacity();
    assert!(cap <= MAXC, "harness.c12.capacity_bound");
    let mut n = 0;
    let mut j = 0;
    while j < cap {
        if m.verif_slot(j).is_some() {
            n += 1;
        }
        j += 1;
    }
    assert!(n == m.len(), "C12.inv.len_equals_number_of_entries");
    assert!(m.is_empty() == (n == 0), "C12.inv.is_empty");
    assert!(n < cap, "C12.inv.one_bucket_stays_empty");
    assert!(n <= load_limit(cap), "C12.inv.load_within_growth_threshold");
    let j = s.u8() as usize;
    s.assume(j < cap);
    if let Some((h, k, _)) = m.verif_slot(j) {
        assert!(h == verif_hash(k), "C12.inv.bucket_hash_matches_key");
        assert!(m.verif_find_ind(h, k) == j, "C12.inv.every_stored_key_is_reachable_by_probe");
        let i = s.u8() as usize;
        s.assume(i < cap && i != j);
        if let Some((_, k2, _)) = m.verif_slot(i) {
            assert!(k2 != k, "C12.inv.no_key_stored_twice");
        }
    }
}

pub fn base_new<S: Src, const C: usize>(s: &mut S) {
    let m = Map::with_capacity_in(C, SysAllocator).unwrap();
    assert!(m.capacity() >= C.max(1), "C12.new.capacity_at_least_requested");
    check_inv(&m, s);
    let q = s.u8();
    assert!(m.get(&q).is_none() && !m.contains(&q), "C12.new.empty");
    assert!(m.len() == 0, "C12.new.len");
    let d: Map = Default::default();
    assert!(d.len() == 0 && d.get(&q).is_none(), "C12.default.empty");
    check_inv(&d, s);
    s.reached("c12.base_new");
}

pub fn ind_insert<S: Src, const C: usize, const GROW: bool>(s: &mut S) {
    let (mut m, pre) = sym_state::<S, C>(s);
    let k = s.u8();
    let v = s.u8();
    // the two halves of the case split are separate harnesses: the insert that crosses the
    // growth threshold, and all the others
    s.assume((pre.n == load_limit(C) && pre.lookup(k).is_none()) == GROW);
    let r = m.insert(k, v);
    assert!(r.is_ok(), "C12.insert.ok");
    let q = s.u8();
    let expect = if q == k { Some(v) } else { pre.lookup(q) };
    assert!(m.get(&q).copied() == expect, "C12.insert.lookup_after");
    let n = pre.n + pre.lookup(k).is_none() as usize;
    assert!(m.len() == n, "C12.insert.len");
    check_inv(&m, s);
    s.reached("c12.ind_insert");
}

pub fn ind_remove<S: Src, const C: usize>(s: &mut S) {
    let (mut m, pre) = sym_state::<S, C>(s);
    let k = s.u8();
    let r = m.remove(&k);
    assert!(r == pre.lookup(k), "C12.remove.returns_stored_value");
    let q = s.u8();
    let expect = if q == k { None } else { pre.lookup(q) };
    assert!(m.get(&q).copied() == expect, "C12.remove.other_keys_unaffected");
    assert!(m.contains(&q) == expect.is_some(), "C12.remove.contains_after");
    let n = pre.n - pre.lookup(k).is_some() as usize;
    assert!(m.len() == n, "C12.remove.len_decremented");
    assert!(m.capacity() == C, "C12.remove.capacity_unchanged");
    check_inv(&m, s);
    s.reached("c12.ind_remove");
}

pub fn ind_lookup<S: Src, const C: usize>(s: &mut S) {
    let (mut m, pre) = sym_state::<S, C>(s);
    let k = s.u8();
    let e = pre.lookup(k);
    assert!(m.get(&k).copied() == e, "C12.get");
    assert!(m.contains(&k) == e.is_some(), "C12.contains");
    let w = s.u8();
    match m.get_mut(&k) {
        Some(r) => {
            assert!(Some(*r) == e, "C12.get_mut.value");
            *r = w;
        }
        None => assert!(e.is_none(), "C12.get_mut.none"),
    }
    let q = s.u8();
    let expect = if q == k && e.is_some() { Some(w) } else { pre.lookup(q) };
    assert!(m.get(&q).copied() == expect, "C12.get_mut.write_visible_only_at_key");
    assert!(m.len() == pre.n, "C12.lookup.len_unchanged");
    check_inv(&m, s);
    s.reached("c12.ind_lookup");
}

pub fn ind_entry<S: Src, const C: usize, const GROW: bool>(s: &mut S) {
    let (mut m, pre) = sym_state::<S, C>(s);
    let k = s.u8();
    let v = s.u8();
    let w = s.u8();
    let old = pre.lookup(k);
    s.assume((pre.n == load_limit(C) && old.is_none()) == GROW);
    {
        let e = m.entry(k);
        assert!(e.is_ok(), "C12.entry.ok");
        let r = e.unwrap().or_insert_with(|| v);
        assert!(*r == old.unwrap_or(v), "C12.entry.or_insert_value");
        *r = w;
    }
    let q = s.u8();
    let expect = if q == k { Some(w) } else { pre.lookup(q) };
    assert!(m.get(&q).copied() == expect, "C12.entry.lookup_after");
    assert!(m.len() == pre.n + old.is_none() as usize, "C12.entry.len");
    check_inv(&m, s);
    s.reached("c12.ind_entry");
}

pub fn ind_clear<S: Src, const C: usize>(s: &mut S) {
    let (mut m, _pre) = sym_state::<S, C>(s);
    m.clear();
    let q = s.u8();
    assert!(m.get(&q).is_none(), "C12.clear.empty_after");
    assert!(m.len() == 0, "C12.clear.len");
    check_inv(&m, s);
    let v = s.u8();
    assert!(m.insert(q, v).is_ok(), "C12.clear.insert_after");
    assert!(m.get(&q).copied() == Some(v) && m.len() == 1, "C12.clear.usable_after");
    check_inv(&m, s);
    s.reached("c12.ind_clear");
}

pub fn ind_clone<S: Src, const C: usize>(s: &mut S) {
    let (m, pre) = sym_state::<S, C>(s);
    let c = m.clone();
    let q = s.u8();
    assert!(c.get(&q).copied() == pre.lookup(q), "C12.clone.same_content");
    assert!(c.len() == pre.n, "C12.clone.len");
    check_inv(&c, s);
    assert!(m.get(&q).copied() == pre.lookup(q), "C12.clone.source_unchanged");
    check_inv(&m, s);
    s.reached("c12.ind_clone");
}

pub fn ind_reserve<S: Src, const C: usize, const ADD: usize>(s: &mut S) {
    let (mut m, pre) = sym_state::<S, C>(s);
    assert!(m.reserve(ADD).is_ok(), "C12.reserve.ok");
    assert!(m.capacity() >= C + ADD, "C12.reserve.capacity");
    let q = s.u8();
    assert!(m.get(&q).copied() == pre.lookup(q), "C12.reserve.same_content");
    assert!(m.len() == pre.n, "C12.reserve.len");
    check_inv(&m, s);
    s.reached("c12.ind_reserve");
}

pub fn ind_iter<S: Src, const C: usize>(s: &mut S) {
    let (mut m, pre) = sym_state::<S, C>(s);
    let q = s.u8();
    let mut seen_q = 0usize;
    let mut n = 0usize;
    for (k, v) in m.iter() {
        assert!(pre.lookup(*k) == Some(*v), "C12.iter.yields_stored_entries");
        if *k == q {
            seen_q += 1;
        }
        n += 1;
    }
    assert!(n == pre.n, "C12.iter.count");
    assert!(seen_q == pre.lookup(q).is_some() as usize, "C12.iter.each_entry_exactly_once");
    let mut n = 0usize;
    let mut seen_q = 0usize;
    for (k, v) in m.iter_mut() {
        assert!(pre.lookup(*k) == Some(*v), "C12.iter_mut.yields_stored_entries");
        if *k == q {
            seen_q += 1;
        }
        n += 1;
    }
    assert!(n == pre.n, "C12.iter_mut.count");
    assert!(seen_q == pre.lookup(q).is_some() as usize, "C12.iter_mut.each_entry_exactly_once");
    s.reached("c12.ind_iter");
}

/// two operations in a row from an arbitrary state: the post-state of the first is fed to the
/// second without re-assuming the invariant (cross-check that the invariant is not too weak for
/// what follows, and that insert-after-remove / remove-after-insert compose)
pub fn ind_two_ops<S: Src, const C: usize>(s: &mut S) {
    let (mut m, pre) = sym_state::<S, C>(s);
    let k1 = s.u8();
    let v1 = s.u8();
    let k2 = s.u8();
    let first_is_insert = s.bool();
    let mut mid_k1: Option<u8>;
    if first_is_insert {
        assert!(m.insert(k1, v1).is_ok(), "C12.two.insert_ok");
        mid_k1 = Some(v1);
        let r = m.remove(&k2);
        let e = if k2 == k1 { Some(v1) } else { pre.lookup(k2) };
        assert!(r == e, "C12.two.remove_after_insert");
        if k2 == k1 {
            mid_k1 = None;
        }
    } else {
        let r = m.remove(&k1);
        assert!(r == pre.lookup(k1), "C12.two.remove");
        mid_k1 = None;
        assert!(m.insert(k2, v1).is_ok(), "C12.two.insert_after_remove");
        if k2 == k1 {
            mid_k1 = Some(v1);
        }
    }
    let q = s.u8();
    let expect = if q == k1 {
        mid_k1
    } else if q == k2 {
        if first_is_insert {
            None
        } else {
            Some(v1)
        }
    } else {
        pre.lookup(q)
    };
    assert!(m.get(&q).copied() == expect, "C12.two.lookup_after");
    check_inv(&m, s);
    s.reached("c12.ind_two_ops");
}

// ------------------------------------------------------------------ drop exactly once

static mut DROPS: [u8; 16] = [0; 16];

pub struct Tracked(pub u8);
impl Drop for Tracked {
    fn drop(&mut self) {
        unsafe {
            DROPS[self.0 as usize] += 1;
        }
    }
}
impl Clone for Tracked {
    fn clone(&self) -> Self {
        Tracked(self.0 + 8)
    }
}

type TMap = CaoHashMap<u8, Tracked>;

/// arbitrary valid state whose value in bucket j is Tracked(j); one operation; drop the map;
/// every Tracked ever created must have been dropped exactly once, and none before the
/// operation that removes it from the map.
pub fn ind_drops<S: Src, const C: usize, const OP: u8>(s: &mut S) {
    unsafe {
        DROPS = [0; 16];
    }
    let mut created = [false; 16];
    {
        let mut m = TMap::with_capacity_in(C, SysAllocator).unwrap();
        let mut occ = [false; C];
        let mut keys = [0u8; C];
        let mut n = 0;
        let mut j = 0;
        while j < C {
            occ[j] = s.bool();
            keys[j] = s.u8();
            if occ[j] {
                let h = verif_hash(&keys[j]);
                unsafe { m.verif_set_slot(j, h, keys[j], Tracked(j as u8)) };
                created[j] = true;
                n += 1;
            }
            j += 1;
        }
        s.assume(n <= load_limit(C));
        let mut j = 0;
        while j < C {
            let mut i = 0;
            while i < j {
                s.assume(!(occ[i] && occ[j] && keys[i] == keys[j]));
                i += 1;
            }
            if occ[j] {
                let h = verif_hash(&keys[j]);
                s.assume(m.verif_find_ind(h, &keys[j]) == j);
            }
            j += 1;
        }
        let k = s.u8();
        let new_id = C as u8; // < 8
        match OP {
            0 => {
                created[new_id as usize] = true;
                assert!(m.insert(k, Tracked(new_id)).is_ok(), "C12.drops.insert_ok");
            }
            1 => {
                if let Some(t) = m.remove(&k) {
                    assert!(unsafe { DROPS[t.0 as usize] } == 0, "C12.drops.removed_value_not_dropped_by_map");
                    drop(t);
                }
            }
            2 => {
                m.clear();
                let mut id = 0;
                while id < C {
                    if created[id] {
                        assert!(unsafe { DROPS[id] } == 1, "C12.drops.clear_drops_each_once");
                    }
                    id += 1;
                }
            }
            3 => {
                created[new_id as usize] = true;
                let mut made = false;
                {
                    let e = m.entry(k).unwrap();
                    e.or_insert_with(|| {
                        made = true;
                        Tracked(new_id)
                    });
                }
                if !made {
                    created[new_id as usize] = false;
                }
            }
            _ => {
                assert!(m.reserve(1).is_ok(), "C12.drops.reserve_ok");
            }
        }
        // nothing still stored has been dropped
        let cap = m.capacity();
        let mut j = 0;
        while j < cap && j < MAXC {
            if let Some((_, _, t)) = m.verif_slot(j) {
                assert!(unsafe { DROPS[t.0 as usize] } == 0, "C12.drops.stored_value_still_alive");
            }
            j += 1;
        }
    }
    let mut id = 0;
    while id < 8 {
        let d = unsafe { DROPS[id] };
        if created[id] {
            assert!(d == 1, "C12.drops.every_value_dropped_exactly_once");
        } else {
            assert!(d == 0, "C12.drops.nothing_else_dropped");
        }
        id += 1;
    }
    s.reached("c12.ind_drops");
}

// ------------------------------------------------------------------ allocation failure

static mut ALLOC_CALLS: u32 = 0;

/// allocator that fails from its `fail_at`-th allocation on
#[derive(Clone, Copy)]
pub struct FailAt {
    pub fail_at: u32,
}

impl Allocator for FailAt {
    unsafe fn alloc(&self, l: Layout) -> Result<NonNull<u8>, AllocError> {
        let n = ALLOC_CALLS;
        ALLOC_CALLS = n + 1;
        if n >= self.fail_at {
            return Err(AllocError::OutOfMemory);
        }
        SysAllocator.alloc(l)
    }
    unsafe fn dealloc(&self, p: NonNull<u8>, l: Layout) {
        SysAllocator.dealloc(p, l)
    }
}

type FMap = CaoHashMap<u8, u8, FailAt>;

/// An arbitrary valid state at the growth threshold, held by an allocator whose next allocation
/// fails (or not: solver-chosen). The operation that needs to grow must report the failure as
/// Err, and every previously stored entry must still be retrievable.
pub fn alloc_failure<S: Src, const C: usize, const OP: u8, const FAILS: bool>(s: &mut S) {
    unsafe {
        ALLOC_CALLS = 0;
    }
    // concrete per harness: a solver-chosen failure makes the storage pointer symbolic (out of memory in CBMC)
    let fails = FAILS;
    // allocation #0 is the map's own storage; #1 is the growth
    let a = FailAt {
        fail_at: if fails { 1 } else { 2 },
    };
    let (mut m, pre) = sym_state_in::<S, FailAt, C>(s, a);
    s.assume(pre.n == load_limit(C));
    let k = s.u8();
    s.assume(pre.lookup(k).is_none());
    let v = s.u8();
    let failed;
    match OP {
        0 => {
            failed = m.insert(k, v).is_err();
        }
        1 => {
            let r = m.entry(k);
            failed = r.is_err();
            if let Ok(e) = r {
                e.or_insert_with(|| v);
            }
        }
        _ => {
            failed = m.reserve(1).is_err();
        }
    }
    assert!(failed == fails, "C12.allocfail.failure_is_reported_as_error");
    let q = s.u8();
    if q != k {
        assert!(
            m.get(&q).copied() == pre.lookup(q),
            "C12.allocfail.previous_entries_still_retrievable"
        );
    }
    std::mem::forget(m);
    s.reached("c12.alloc_failure");
}

/// construction with an allocator that fails at once
pub fn alloc_failure_new<S: Src>(s: &mut S) {
    unsafe {
        ALLOC_CALLS = 0;
    }
    let cap = s.below(9) as usize;
    let m = FMap::with_capacity_in(cap, FailAt { fail_at: 0 });
    assert!(m.is_err(), "C12.allocfail.constructor_reports_error");
    s.reached("c12.alloc_failure_new");
}

// ------------------------------------------------------------------ reserved hash value

/// "∃ key: hash(key) is the reserved value 0" over all i64 / u64 / u32 keys of the real hasher
pub fn hash_nonzero_u8<S: Src>(s: &mut S) {
    let k = s.u8();
    assert!(verif_hash(&k) != 0, "C12.hash.reserved_zero_u8");
    s.reached("c12.hash_nonzero_u8");
}
pub fn hash_nonzero_u32<S: Src>(s: &mut S) {
    let k = s.u32();
    assert!(verif_hash(&k) != 0, "C12.hash.reserved_zero_u32");
    s.reached("c12.hash_nonzero_u32");
}
pub fn hash_nonzero_i64<S: Src>(s: &mut S) {
    let k = s.i64();
    assert!(verif_hash(&k) != 0, "C12.hash.reserved_zero_i64");
    s.reached("c12.hash_nonzero_i64");
}

/// a key whose hash is solver-chosen-any (including one that would be 0) inserted into an
/// empty map and looked up: i64 keys through the public API
pub fn i64_key_roundtrip<S: Src>(s: &mut S) {
    let mut m: CaoHashMap<i64, u8> = CaoHashMap::with_capacity_in(4, SysAllocator).unwrap();
    let k = s.i64();
    let v = s.u8();
    assert!(m.insert(k, v).is_ok(), "C12.i64.insert_ok");
    assert!(m.get(&k).copied() == Some(v), "C12.i64.inserted_key_is_retrievable");
    assert!(m.len() == 1, "C12.i64.len");
    assert!(m.remove(&k) == Some(v), "C12.i64.remove_returns_value");
    assert!(m.get(&k).is_none() && m.len() == 0, "C12.i64.gone_after_remove");
    s.reached("c12.i64_key_roundtrip");
}

crate::harnesses! {
    c12_base_new_c0 / 4 => base_new::<_, 0>;
    c12_base_new_c4 / 6 => base_new::<_, 4>;
    c12_base_new_c8 / 10 => base_new::<_, 8>;
    c12_insert_c1_grow / 6 => ind_insert::<_, 1, true>;
    c12_insert_c3 / 5 => ind_insert::<_, 3, false>;
    c12_insert_c3_grow / 8 => ind_insert::<_, 3, true>;
    c12_insert_c4 / 6 => ind_insert::<_, 4, false>;
    c12_insert_c4_grow / 8 => ind_insert::<_, 4, true>;
    c12_insert_c6 / 8 => ind_insert::<_, 6, false>;
    c12_insert_c6_grow / 11 => ind_insert::<_, 6, true>;
    c12_insert_c8 / 10 => ind_insert::<_, 8, false>;
    c12_insert_c8_grow / 14 => ind_insert::<_, 8, true>;
    c12_remove_c3 / 5 => ind_remove::<_, 3>;
    c12_remove_c4 / 6 => ind_remove::<_, 4>;
    c12_remove_c6 / 8 => ind_remove::<_, 6>;
    c12_remove_c8 / 10 => ind_remove::<_, 8>;
    c12_lookup_c3 / 5 => ind_lookup::<_, 3>;
    c12_lookup_c4 / 6 => ind_lookup::<_, 4>;
    c12_lookup_c8 / 10 => ind_lookup::<_, 8>;
    c12_entry_c1_grow / 6 => ind_entry::<_, 1, true>;
    c12_entry_c3 / 5 => ind_entry::<_, 3, false>;
    c12_entry_c3_grow / 8 => ind_entry::<_, 3, true>;
    c12_entry_c4 / 6 => ind_entry::<_, 4, false>;
    c12_entry_c4_grow / 8 => ind_entry::<_, 4, true>;
    c12_entry_c6_grow / 11 => ind_entry::<_, 6, true>;
    c12_entry_c8 / 10 => ind_entry::<_, 8, false>;
    c12_entry_c8_grow / 14 => ind_entry::<_, 8, true>;
    c12_clear_c4 / 6 => ind_clear::<_, 4>;
    c12_clone_c3 / 5 => ind_clone::<_, 3>;
    c12_clone_c4 / 6 => ind_clone::<_, 4>;
    c12_reserve_c4_1 / 7 => ind_reserve::<_, 4, 1>;
    c12_reserve_c3_3 / 8 => ind_reserve::<_, 3, 3>;
    c12_iter_c3 / 5 => ind_iter::<_, 3>;
    c12_iter_c4 / 6 => ind_iter::<_, 4>;
    c12_two_ops_c3 / 8 => ind_two_ops::<_, 3>;
    c12_two_ops_c4 / 8 => ind_two_ops::<_, 4>;
    c12_drops_insert_c3 / 10 => ind_drops::<_, 3, 0>;
    c12_drops_remove_c3 / 10 => ind_drops::<_, 3, 1>;
    c12_drops_clear_c3 / 10 => ind_drops::<_, 3, 2>;
    c12_drops_entry_c3 / 10 => ind_drops::<_, 3, 3>;
    c12_drops_reserve_c3 / 10 => ind_drops::<_, 3, 4>;
    c12_drops_insert_c4 / 10 => ind_drops::<_, 4, 0>;
    c12_drops_remove_c4 / 10 => ind_drops::<_, 4, 1>;
    c12_allocfail_insert_c4 / 8 => alloc_failure::<_, 4, 0, true>;
    c12_allocfail_entry_c4 / 8 => alloc_failure::<_, 4, 1, true>;
    c12_allocfail_reserve_c4 / 8 => alloc_failure::<_, 4, 2, true>;
    c12_allocok_insert_c4 / 8 => alloc_failure::<_, 4, 0, false>;
    c12_allocfail_new / 4 => alloc_failure_new;
    c12_hash_nonzero_u8 / 3 => hash_nonzero_u8;
    c12_hash_nonzero_u32 / 6 => hash_nonzero_u32;
    c12_hash_nonzero_i64 / 10 => hash_nonzero_i64;
    c12_i64_key_roundtrip / 10 => i64_key_roundtrip;
}
