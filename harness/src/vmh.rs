//! Helpers shared by the VM-level harnesses: a tiny assembler for hand-built bytecode and a rig
//! holding a small VM (no stdlib natives, small stacks) plus the program it runs.
use cao_lang::prelude::*;
pub use cao_lang::verif_hooks::op;

pub struct Asm {
    pub bc: Vec<u8>,
}

impl Asm {
    pub fn new() -> Self {
        Asm {
            bc: Vec::with_capacity(60),
        }
    }
    pub fn pos(&self) -> usize {
        self.bc.len()
    }
    pub fn op(&mut self, o: u8) -> &mut Self {
        self.bc.push(o);
        self
    }
    pub fn bytes(&mut self, b: &[u8]) -> &mut Self {
        let mut i = 0;
        while i < b.len() {
            self.bc.push(b[i]);
            i += 1;
        }
        self
    }
    pub fn u8(&mut self, v: u8) -> &mut Self {
        self.bc.push(v);
        self
    }
    pub fn u32(&mut self, v: u32) -> &mut Self {
        self.bytes(&v.to_le_bytes())
    }
    pub fn i32(&mut self, v: i32) -> &mut Self {
        self.bytes(&v.to_le_bytes())
    }
    pub fn i64(&mut self, v: i64) -> &mut Self {
        self.bytes(&v.to_le_bytes())
    }
    pub fn f64(&mut self, v: f64) -> &mut Self {
        self.bytes(&v.to_bits().to_le_bytes())
    }
    pub fn int(&mut self, v: i64) -> &mut Self {
        self.op(op::SCALAR_INT).i64(v)
    }
    pub fn real(&mut self, v: f64) -> &mut Self {
        self.op(op::SCALAR_FLOAT).f64(v)
    }
    pub fn set_global(&mut self, id: u32) -> &mut Self {
        self.op(op::SET_GLOBAL_VAR).u32(id)
    }
    pub fn read_global(&mut self, id: u32) -> &mut Self {
        self.op(op::READ_GLOBAL_VAR).u32(id)
    }
    pub fn set_local(&mut self, id: u32) -> &mut Self {
        self.op(op::SET_LOCAL_VAR).u32(id)
    }
    pub fn read_local(&mut self, id: u32) -> &mut Self {
        self.op(op::READ_LOCAL_VAR).u32(id)
    }
    pub fn exit(&mut self) -> &mut Self {
        self.op(op::EXIT)
    }
}

/// an empty program whose tables are as small as the types allow (the default tables have 16
/// slots each, which is what most of the formula is made of)
pub fn small_program() -> CaoCompiledProgram {
    use cao_lang::collections::handle_table::HandleTable;
    use cao_lang::collections::hash_map::CaoHashMap;
    use cao_lang::verif_hooks::SysAllocator;
    CaoCompiledProgram {
        bytecode: Vec::new(),
        data: Vec::new(),
        labels: Labels(HandleTable::with_capacity(4, SysAllocator).unwrap()),
        variables: Variables {
            ids: HandleTable::with_capacity(4, SysAllocator).unwrap(),
            names: HandleTable::with_capacity(4, SysAllocator).unwrap(),
        },
        cao_lang_version: String::new(),
        trace: CaoHashMap::with_capacity_in(4, SysAllocator).unwrap(),
    }
}

pub struct Rig {
    pub vm: Vm<'static, ()>,
    pub prog: CaoCompiledProgram,
}

impl Rig {
    /// like `new`, but runtime errors carry their source trace
    pub fn new_with_trace(stack: usize, calls: usize, mem: usize) -> Self {
        let r = Self::new(stack, calls, mem);
        cao_lang::verif_hooks::set_skip_error_trace(false);
        r
    }
    /// small VM with one base call frame (offset 0), like `Vm::run` sets up
    pub fn new(stack: usize, calls: usize, mem: usize) -> Self {
        // error locations are C15's subject; everywhere else the trace is not built
        cao_lang::verif_hooks::set_skip_error_trace(true);
        let mut vm = Vm::verif_new_small((), mem, stack, calls).unwrap();
        vm.max_instr = 64;
        let ok = vm.runtime_data.verif_push_frame(0, 0, 0, None);
        assert!(ok, "harness.rig.base_frame");
        Rig {
            vm,
            prog: CaoCompiledProgram::default(),
        }
    }
    pub fn run(&mut self, asm: Asm) -> (ExecutionResult<()>, usize) {
        self.run_from(asm, 0)
    }
    pub fn run_from(&mut self, asm: Asm, ip: usize) -> (ExecutionResult<()>, usize) {
        self.prog.bytecode = asm.bc;
        self.vm.verif_run_from(&self.prog, ip)
    }
    pub fn global(&mut self, i: usize) -> Option<Value> {
        self.vm.runtime_data.verif_globals().get(i).copied()
    }
    pub fn stack_len(&self) -> usize {
        self.vm.runtime_data.verif_stack_len()
    }
    pub fn stack_get(&mut self, i: usize) -> Value {
        self.vm.runtime_data.verif_stack_get(i)
    }
    pub fn push(&mut self, v: Value) {
        let r = self.vm.stack_push(v);
        assert!(r.is_ok(), "harness.rig.push");
    }
}

/// bit-exact comparison of values (objects by pointer)
pub fn same(a: Value, b: Value) -> bool {
    match (a, b) {
        (Value::Nil, Value::Nil) => true,
        (Value::Integer(x), Value::Integer(y)) => x == y,
        (Value::Real(x), Value::Real(y)) => x.to_bits() == y.to_bits(),
        (Value::Object(x), Value::Object(y)) => x == y,
        _ => false,
    }
}

pub fn kind_of(e: &ExecutionErrorPayload) -> u8 {
    match e {
        ExecutionErrorPayload::CallStackOverflow => 1,
        ExecutionErrorPayload::UnexpectedEndOfInput => 2,
        ExecutionErrorPayload::ExitCode(_) => 3,
        ExecutionErrorPayload::InvalidInstruction(_) => 4,
        ExecutionErrorPayload::InvalidArgument { .. } => 5,
        ExecutionErrorPayload::VarNotFound(_) => 6,
        ExecutionErrorPayload::ProcedureNotFound(_) => 7,
        ExecutionErrorPayload::Unimplemented => 8,
        ExecutionErrorPayload::OutOfMemory => 9,
        ExecutionErrorPayload::MissingArgument => 10,
        ExecutionErrorPayload::Timeout => 11,
        ExecutionErrorPayload::TaskFailure { .. } => 12,
        ExecutionErrorPayload::Stackoverflow => 13,
        ExecutionErrorPayload::BadReturn { .. } => 14,
        ExecutionErrorPayload::Unhashable => 15,
        ExecutionErrorPayload::AssertionError(_) => 16,
        ExecutionErrorPayload::InvalidUpvalue => 17,
        ExecutionErrorPayload::NotClosure => 18,
    }
}

pub const E_TIMEOUT: u8 = 11;
pub const E_STACKOVERFLOW: u8 = 13;
pub const E_CALLSTACKOVERFLOW: u8 = 1;
pub const E_OOM: u8 = 9;
pub const E_INVALID_ARG: u8 = 5;
pub const E_PROC_NOT_FOUND: u8 = 7;
pub const E_VAR_NOT_FOUND: u8 = 6;
pub const E_MISSING_ARG: u8 = 10;
pub const E_TASK_FAILURE: u8 = 12;
pub const E_BAD_RETURN: u8 = 14;
pub const E_NOT_CLOSURE: u8 = 18;
pub const E_INVALID_UPVALUE: u8 = 17;
