//! C06 — closures capture variables by reference with correct identity and lifetime (VM steps).
//!
//! One- to three-instruction programs around RegisterUpvalue / ReadUpvalue / SetUpvalue /
//! CloseUpvalue on a small VM: frame offset and local index concrete per harness, slot contents
//! solver-chosen. Closure-body identity: the label the compiler derives for a closure site.
use crate::vmh::*;
use crate::Src;
use cao_lang::prelude::*;
use cao_lang::vm::runtime::cao_lang_object::{CaoLangObject, GcMarker};
use std::ptr::NonNull;

fn new_closure(rig: &mut Rig) -> NonNull<CaoLangObject> {
    let c = rig.vm.init_closure(Handle::from_u32(77), 0).unwrap().into_inner();
    unsafe {
        (*c.as_ptr()).marker = GcMarker::White;
    }
    c
}

fn upvalue_of(clo: NonNull<CaoLangObject>, i: usize) -> Option<NonNull<CaoLangObject>> {
    unsafe { clo.as_ref().as_closure().and_then(|c| c.upvalues.get(i).copied()) }
}

fn location_of(up: NonNull<CaoLangObject>) -> *mut Value {
    unsafe { up.as_ref().as_upvalue().map(|u| u.location).unwrap_or(std::ptr::null_mut()) }
}

/// the closure created in a frame at OFFSET captures local INDEX: the upvalue must alias
/// exactly slot OFFSET + INDEX
pub fn capture_slot<S: Src, const OFFSET: u32, const INDEX: u8>(s: &mut S) {
    let mut rig = Rig::new(12, 4, 1 << 16);
    let mut k = 0;
    while k < OFFSET {
        rig.push(Value::Integer(s.i64()));
        k += 1;
    }
    if OFFSET > 0 {
        assert!(rig.vm.runtime_data.verif_push_frame(0, 0, OFFSET, None), "harness.frame");
    }
    let l0 = s.i64();
    let l1 = s.i64();
    rig.push(Value::Integer(l0));
    rig.push(Value::Integer(l1));
    let clo = new_closure(&mut rig);
    rig.push(Value::Object(clo));
    let mut a = Asm::new();
    // what the compiler emits after the Closure instruction for each captured variable
    a.op(op::COPY_LAST).op(op::REGISTER_UPVALUE).u8(INDEX).u8(1).exit();
    let (res, _) = rig.run(a);
    assert!(res.is_ok(), "C06.capture.program_succeeds");
    let up = upvalue_of(clo, 0);
    assert!(up.is_some(), "C06.capture.upvalue_registered");
    let loc = location_of(up.unwrap());
    let slot = OFFSET as usize + INDEX as usize;
    let expect = unsafe { rig.vm.runtime_data.verif_stack().as_slice().as_ptr().add(slot) };
    assert!(loc as *const Value == expect, "C06.capture.upvalue_aliases_the_enclosing_frames_local");
    let v = unsafe { *loc };
    assert!(same(v, Value::Integer(if INDEX == 0 { l0 } else { l1 })), "C06.capture.reads_the_named_variable");
    // the closure itself stays on the stack, the copy was consumed
    assert!(rig.stack_len() == OFFSET as usize + 3, "C06.capture.stack_height");
    std::mem::forget(rig);
    s.reached("c06.capture_slot");
}

/// two closures capturing the same local share one upvalue; a different local gets its own
pub fn shared_capture<S: Src>(s: &mut S) {
    let mut rig = Rig::new(12, 4, 1 << 16);
    rig.push(Value::Integer(s.i64()));
    rig.push(Value::Integer(s.i64()));
    let c1 = new_closure(&mut rig);
    let c2 = new_closure(&mut rig);
    rig.push(Value::Object(c1));
    let mut a = Asm::new();
    a.op(op::REGISTER_UPVALUE).u8(1).u8(1).exit();
    let (res, _) = rig.run(a);
    assert!(res.is_ok(), "C06.capture.program_succeeds");
    rig.push(Value::Object(c2));
    rig.push(Value::Object(c2));
    let mut a = Asm::new();
    a.op(op::REGISTER_UPVALUE).u8(1).u8(1).op(op::REGISTER_UPVALUE).u8(0).u8(1).exit();
    let (res, _) = rig.run(a);
    assert!(res.is_ok(), "C06.capture.program_succeeds");
    let u1 = upvalue_of(c1, 0);
    let u2 = upvalue_of(c2, 0);
    let u3 = upvalue_of(c2, 1);
    assert!(u1.is_some() && u1 == u2, "C06.capture.sibling_closures_share_the_variable");
    assert!(u3.is_some() && u3 != u1, "C06.capture.distinct_variables_get_distinct_upvalues");
    std::mem::forget(rig);
    s.reached("c06.shared_capture");
}

/// inside the closure: writes go to the captured variable, reads see it
pub fn read_write_upvalue<S: Src, const OFFSET: u32>(s: &mut S) {
    let mut rig = Rig::new(12, 4, 1 << 16);
    let mut k = 0;
    while k < OFFSET {
        rig.push(Value::Integer(s.i64()));
        k += 1;
    }
    if OFFSET > 0 {
        assert!(rig.vm.runtime_data.verif_push_frame(0, 0, OFFSET, None), "harness.frame");
    }
    let old = s.i64();
    rig.push(Value::Integer(old));
    let clo = new_closure(&mut rig);
    rig.push(Value::Object(clo));
    let mut a = Asm::new();
    a.op(op::REGISTER_UPVALUE).u8(0).u8(1).exit();
    let (res, _) = rig.run(a);
    assert!(res.is_ok(), "C06.capture.program_succeeds");
    // now the closure runs in its own frame above
    let base = rig.stack_len() as u32;
    assert!(rig.vm.runtime_data.verif_push_frame(0, 0, base, Some(clo)), "harness.frame");
    let new = s.i64();
    rig.push(Value::Integer(new));
    let mut a = Asm::new();
    a.op(op::SET_UPVALUE).u32(0).op(op::READ_UPVALUE).u32(0).exit();
    let (res, _) = rig.run(a);
    assert!(res.is_ok(), "C06.upvalue.program_succeeds");
    assert!(same(rig.stack_get(OFFSET as usize), Value::Integer(new)), "C06.upvalue.write_reaches_the_enclosing_variable");
    assert!(rig.stack_len() == base as usize + 1, "C06.upvalue.stack_height");
    assert!(same(rig.stack_get(base as usize), Value::Integer(new)), "C06.upvalue.read_sees_the_variable");
    std::mem::forget(rig);
    s.reached("c06.read_write_upvalue");
}

/// when the scope exits the closure keeps its own copy of the last value; later writes to the
/// dead slot do not reach it
pub fn close_keeps_last_value<S: Src>(s: &mut S) {
    let mut rig = Rig::new(12, 4, 1 << 16);
    let x = s.i64();
    rig.push(Value::Integer(x));
    let clo = new_closure(&mut rig);
    rig.push(Value::Object(clo));
    let mut a = Asm::new();
    a.op(op::REGISTER_UPVALUE).u8(0).u8(1).exit();
    let (res, _) = rig.run(a);
    assert!(res.is_ok(), "C06.capture.program_succeeds");
    let up = upvalue_of(clo, 0).unwrap();
    // scope end of the captured local (it is on top of the stack now)
    let mut a = Asm::new();
    a.op(op::CLOSE_UPVALUE).exit();
    let (res, _) = rig.run(a);
    assert!(res.is_ok(), "C06.close.program_succeeds");
    assert!(rig.vm.runtime_data.verif_open_upvalues().is_null(), "C06.close.no_open_upvalue_left");
    let loc = location_of(up);
    let slot0 = unsafe { rig.vm.runtime_data.verif_stack().as_slice().as_ptr() };
    assert!(loc as *const Value != slot0, "C06.close.upvalue_no_longer_aliases_the_stack");
    // overwrite the dead slot
    let y = s.i64();
    let _ = rig.vm.runtime_data.verif_stack().set(0, Value::Integer(y));
    let v = unsafe { *location_of(up) };
    assert!(same(v, Value::Integer(x)), "C06.close.closure_keeps_last_value_after_scope_exit");
    std::mem::forget(rig);
    s.reached("c06.close_keeps_last_value");
}

/// The label a closure body is registered under: CardIndex::as_handle() ^ mask. Two different
/// closure sites of one module must not share a label (the solver looks for a collision among
/// function indices 0..=7 and card paths of two sub-indices 0..=15).
pub fn closure_label_injective<S: Src>(s: &mut S) {
    let f1 = s.below(8) as usize;
    let f2 = s.below(8) as usize;
    let p1 = [s.below(16) as u32, s.below(16) as u32];
    let p2 = [s.below(16) as u32, s.below(16) as u32];
    s.assume(f1 != f2 || p1 != p2);
    let h1 = CardIndex::from_slice(f1, &p1).as_handle();
    let h2 = CardIndex::from_slice(f2, &p2).as_handle();
    assert!(h1 != h2, "C06.label.distinct_closure_sites_get_distinct_labels");
    s.reached("c06.closure_label_injective");
}

/// wider index space: function index 0..=63, card paths of three sub-indices 0..=255
pub fn closure_label_injective_wide<S: Src>(s: &mut S) {
    let f1 = s.below(64) as usize;
    let f2 = s.below(64) as usize;
    let p1 = [s.u8() as u32, s.u8() as u32, s.u8() as u32];
    let p2 = [s.u8() as u32, s.u8() as u32, s.u8() as u32];
    s.assume(f1 != f2 || p1 != p2);
    let h1 = CardIndex::from_slice(f1, &p1).as_handle();
    let h2 = CardIndex::from_slice(f2, &p2).as_handle();
    assert!(h1 != h2, "C06.label.distinct_closure_sites_get_distinct_labels");
    s.reached("c06.closure_label_injective_wide");
}

/// a closure label (site label ^ closure mask) never equals the label of a function
/// (Handle::from_u64(function index)) of the same program
pub fn closure_label_vs_function_label<S: Src>(s: &mut S) {
    let f = s.below(64) as usize;
    let p = [s.u8() as u32, s.u8() as u32];
    let g = s.u8() as u64;
    let clo = CardIndex::from_slice(f, &p).as_handle() + Handle::from_u64(0xEFEFEFEF);
    assert!(clo != Handle::from_u64(g), "C06.label.closure_label_differs_from_every_function_label");
    s.reached("c06.closure_label_vs_function_label");
}

crate::harnesses! {
    c06_closure_label_injective_wide / 14 => closure_label_injective_wide;
    c06_closure_label_vs_function_label / 12 => closure_label_vs_function_label;
    #[kani::stub(alloc::fmt::format, crate::stub_format)]
    c06_capture_off0_idx0 / 18 => capture_slot::<_, 0, 0>;
    #[kani::stub(alloc::fmt::format, crate::stub_format)]
    c06_capture_off0_idx1 / 18 => capture_slot::<_, 0, 1>;
    #[kani::stub(alloc::fmt::format, crate::stub_format)]
    c06_capture_off2_idx0 / 18 => capture_slot::<_, 2, 0>;
    #[kani::stub(alloc::fmt::format, crate::stub_format)]
    c06_capture_off3_idx1 / 18 => capture_slot::<_, 3, 1>;
    #[kani::stub(alloc::fmt::format, crate::stub_format)]
    c06_shared_capture / 18 => shared_capture;
    #[kani::stub(alloc::fmt::format, crate::stub_format)]
    c06_read_write_upvalue_off0 / 18 => read_write_upvalue::<_, 0>;
    #[kani::stub(alloc::fmt::format, crate::stub_format)]
    c06_read_write_upvalue_off2 / 18 => read_write_upvalue::<_, 2>;
    #[kani::stub(alloc::fmt::format, crate::stub_format)]
    c06_close_keeps_last_value / 18 => close_keeps_last_value;
    c06_closure_label_injective / 12 => closure_label_injective;
}
