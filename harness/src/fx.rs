//! Function-level harnesses: the interpreter's per-instruction functions (`instr_execution::*`)
//! driven directly on a small VM, without the dispatch loop. Whole-VM runs with locals, calls or
//! upvalues did not close (DESIGN §0) because CBMC explores every instruction arm at each
//! dispatch; the functions themselves are the same code the loop calls.
use crate::vmh::*;
use crate::Src;
use cao_lang::compiled_program::Label;
use cao_lang::prelude::*;
use cao_lang::verif_hooks::instr;
use cao_lang::vm::runtime::cao_lang_object::{CaoLangObject, GcMarker};
use std::ptr::NonNull;

fn u32bytes(v: u32) -> [u8; 4] {
    v.to_le_bytes()
}

fn fillers<S: Src>(rig: &mut Rig, s: &mut S, n: u32) -> [i64; 4] {
    let mut f = [0i64; 4];
    let mut k = 0;
    while k < n {
        f[k as usize] = s.i64();
        rig.push(Value::Integer(f[k as usize]));
        k += 1;
    }
    if n > 0 {
        assert!(rig.vm.runtime_data.verif_push_frame(0, 0, n, None), "harness.frame");
    }
    f
}

/// SetLocalVar / ReadLocalVar: locals live at frame offset + index, slots below are untouched
pub fn locals<S: Src, const OFFSET: u32>(s: &mut S) {
    let mut rig = Rig::new(12, 4, 1 << 16);
    let f = fillers(&mut rig, s, OFFSET);
    let (x, y, z) = (s.i64(), s.i64(), s.i64());
    let o = OFFSET as usize;
    // declare local 0 := x, local 1 := y (each a write at the current height)
    rig.push(Value::Integer(x));
    let mut ip = 0usize;
    assert!(instr::set_local(&mut rig.vm, &u32bytes(0), &mut ip).is_ok(), "C01.fx.set_local_ok");
    assert!(ip == 4, "C01.fx.set_local_consumes_operand");
    rig.push(Value::Integer(y));
    let mut ip = 0usize;
    assert!(instr::set_local(&mut rig.vm, &u32bytes(1), &mut ip).is_ok(), "C01.fx.set_local_ok");
    assert!(rig.stack_len() == o + 2, "C01.fx.locals_height");
    // overwrite local 0 := z
    rig.push(Value::Integer(z));
    let mut ip = 0usize;
    assert!(instr::set_local(&mut rig.vm, &u32bytes(0), &mut ip).is_ok(), "C01.fx.set_local_ok");
    assert!(rig.stack_len() == o + 2, "C01.fx.overwrite_keeps_height");
    // read both
    let mut ip = 0usize;
    assert!(instr::get_local(&mut rig.vm, &u32bytes(1), &mut ip).is_ok(), "C01.fx.get_local_ok");
    let mut ip = 0usize;
    assert!(instr::get_local(&mut rig.vm, &u32bytes(0), &mut ip).is_ok(), "C01.fx.get_local_ok");
    assert!(rig.stack_len() == o + 4, "C01.fx.reads_push");
    assert!(same(rig.stack_get(o), Value::Integer(z)), "C01.fx.local0_slot");
    assert!(same(rig.stack_get(o + 1), Value::Integer(y)), "C01.fx.local1_slot");
    assert!(same(rig.stack_get(o + 2), Value::Integer(y)), "C01.fx.read_local1");
    assert!(same(rig.stack_get(o + 3), Value::Integer(z)), "C01.fx.read_local0");
    let mut k = 0;
    while k < o {
        assert!(same(rig.stack_get(k), Value::Integer(f[k])), "C01.fx.caller_slots_untouched");
        k += 1;
    }
    // an undeclared local reads as nil
    let mut ip = 0usize;
    assert!(instr::get_local(&mut rig.vm, &u32bytes(7), &mut ip).is_ok(), "C01.fx.get_local_ok");
    assert!(same(rig.stack_get(o + 4), Value::Nil), "C01.fx.undeclared_local_is_nil");
    std::mem::forget(rig);
    s.reached("fx.locals");
}

fn function_value(rig: &mut Rig, h: Handle, arity: u32) -> Value {
    let o = rig.vm.init_function(h, arity).unwrap().into_inner();
    unsafe {
        (*o.as_ptr()).marker = GcMarker::White;
    }
    Value::Object(o)
}

/// CallFunction + Return: arguments become the callee's first locals in push order, the caller's
/// slots are undisturbed, the return address is restored, the return value replaces the arguments
pub fn call_and_return<S: Src, const OFFSET: u32, const WHICH: u32>(s: &mut S) {
    let mut rig = Rig::new(12, 4, 1 << 16);
    let f = fillers(&mut rig, s, OFFSET);
    let depth0 = rig.vm.runtime_data.verif_call_depth();
    let o = OFFSET as usize;
    let l = s.i64();
    let (x, y) = (s.i64(), s.i64());
    rig.push(Value::Integer(l)); // a live local of the caller
    rig.push(Value::Integer(x));
    rig.push(Value::Integer(y));
    let h = Handle::from_u32(7);
    let fv = function_value(&mut rig, h, 2);
    rig.push(fv);
    rig.prog.labels.0.insert(h, Label::new(100)).unwrap();
    let src = 20usize;
    let mut ip = 21usize; // the address after the CallFunction opcode
    let r = instr::instr_call_function(src, &mut ip, &rig.prog, &mut rig.vm);
    assert!(r.is_ok(), "C01.fx.call_ok");
    assert!(ip == 100, "C01.fx.call_jumps_to_the_label");
    assert!(rig.vm.runtime_data.verif_call_depth() == depth0 + 1, "C01.fx.call_pushes_one_frame");
    let fr = rig.vm.runtime_data.verif_frame(depth0).unwrap();
    assert!(fr.0 == src as u32, "C01.fx.frame_records_call_site");
    assert!(fr.2 as usize == o + 1, "C01.fx.callee_frame_starts_at_first_argument");
    let caller = rig.vm.runtime_data.verif_frame(depth0 - 1).unwrap();
    assert!(caller.1 == 21, "C01.fx.return_address_saved_in_caller_frame");
    // callee reads one of its parameters and returns it
    let mut p = 0usize;
    assert!(instr::get_local(&mut rig.vm, &u32bytes(WHICH), &mut p).is_ok(), "C01.fx.get_local_ok");
    let mut ip2 = 104usize;
    assert!(instr::instr_return(&mut rig.vm, &mut ip2).is_ok(), "C01.fx.return_ok");
    assert!(ip2 == 21, "C01.fx.return_resumes_after_the_call");
    assert!(rig.vm.runtime_data.verif_call_depth() == depth0, "C01.fx.call_depth_restored");
    assert!(rig.stack_len() == o + 2, "C01.fx.return_value_replaces_arguments");
    assert!(same(rig.stack_get(o), Value::Integer(l)), "C01.fx.caller_local_undisturbed");
    let e = if WHICH == 0 { x } else { y };
    assert!(same(rig.stack_get(o + 1), Value::Integer(e)), "C01.fx.parameters_bound_in_push_order");
    let mut k = 0;
    while k < o {
        assert!(same(rig.stack_get(k), Value::Integer(f[k])), "C01.fx.caller_slots_untouched");
        k += 1;
    }
    std::mem::forget(rig);
    s.reached("fx.call_and_return");
}

/// call errors: not a function, unknown label, too few arguments, full call stack
pub fn call_errors<S: Src, const WHICH: u8>(s: &mut S) {
    let mut rig = Rig::new(12, if WHICH == 3 { 1 } else { 4 }, 1 << 16);
    let x = s.i64();
    rig.push(Value::Integer(x));
    let h = Handle::from_u32(7);
    let expect = match WHICH {
        0 => {
            rig.push(Value::Integer(x));
            E_INVALID_ARG
        }
        1 => {
            let fv = function_value(&mut rig, h, 1);
            rig.push(fv);
            E_PROC_NOT_FOUND
        }
        2 => {
            let fv = function_value(&mut rig, h, 3);
            rig.push(fv);
            rig.prog.labels.0.insert(h, Label::new(100)).unwrap();
            E_MISSING_ARG
        }
        _ => {
            let fv = function_value(&mut rig, h, 1);
            rig.push(fv);
            rig.prog.labels.0.insert(h, Label::new(100)).unwrap();
            E_CALLSTACKOVERFLOW
        }
    };
    let mut ip = 21usize;
    let r = instr::instr_call_function(20, &mut ip, &rig.prog, &mut rig.vm);
    match &r {
        Err(e) => assert!(kind_of(e) == expect, "C04.fx.call_error_kind"),
        Ok(()) => assert!(false, "C04.fx.call_error_is_reported"),
    }
    std::mem::forget(r);
    std::mem::forget(rig);
    s.reached("fx.call_errors");
}

fn new_closure(rig: &mut Rig) -> NonNull<CaoLangObject> {
    let c = rig.vm.init_closure(Handle::from_u32(77), 0).unwrap().into_inner();
    unsafe {
        (*c.as_ptr()).marker = GcMarker::White;
    }
    c
}

fn upvalue_of(clo: NonNull<CaoLangObject>, i: usize) -> Option<NonNull<CaoLangObject>> {
    unsafe { clo.as_ref().as_closure().and_then(|c| c.upvalues.get(i).copied()) }
}

fn location_of(up: NonNull<CaoLangObject>) -> *mut Value {
    unsafe { up.as_ref().as_upvalue().map(|u| u.location).unwrap_or(std::ptr::null_mut()) }
}

/// a closed upvalue holds its own copy: its location is the address of its own value field
/// (checked by pointer identity; overwriting the dead stack slot and reading back made the
/// formula explode - DESIGN 0)
fn is_closed(up: NonNull<CaoLangObject>) -> bool {
    unsafe {
        match up.as_ref().as_upvalue() {
            Some(u) => std::ptr::eq(u.location as *const Value, &u.value as *const Value),
            None => false,
        }
    }
}

/// RegisterUpvalue in a frame at OFFSET capturing local INDEX, then write/read through it from a
/// callee frame, then close it: by-reference capture with the right identity and lifetime
pub fn capture_write_read_close<S: Src, const OFFSET: u32, const INDEX: u8>(s: &mut S) {
    let mut rig = Rig::new(8, 3, 1 << 16);
    let _f = fillers(&mut rig, s, OFFSET);
    let o = OFFSET as usize;
    let (l0, l1) = (s.i64(), s.i64());
    rig.push(Value::Integer(l0));
    rig.push(Value::Integer(l1));
    let c1 = new_closure(&mut rig);
    let c2 = new_closure(&mut rig);
    rig.push(Value::Object(c1));
    let mut ip = 0usize;
    assert!(instr::register_upvalue(&mut rig.vm, &[INDEX, 1], &mut ip).is_ok(), "C06.fx.register_ok");
    assert!(ip == 2, "C06.fx.register_consumes_operands");
    rig.push(Value::Object(c2));
    let mut ip = 0usize;
    assert!(instr::register_upvalue(&mut rig.vm, &[INDEX, 1], &mut ip).is_ok(), "C06.fx.register_ok");
    let u1 = upvalue_of(c1, 0);
    let u2 = upvalue_of(c2, 0);
    assert!(u1.is_some() && u1 == u2, "C06.fx.sibling_closures_share_the_variable");
    let slot = o + INDEX as usize;
    let expect = unsafe { rig.vm.runtime_data.verif_stack().as_slice().as_ptr().add(slot) };
    assert!(location_of(u1.unwrap()) as *const Value == expect, "C06.fx.upvalue_aliases_the_enclosing_frames_local");
    // the closure runs in its own frame above and writes the captured variable
    let base = rig.stack_len() as u32;
    assert!(rig.vm.runtime_data.verif_push_frame(0, 0, base, Some(c1)), "harness.frame");
    let w = s.i64();
    rig.push(Value::Integer(w));
    let mut ip = 0usize;
    assert!(instr::write_upvalue(&mut rig.vm, &u32bytes(0), &mut ip).is_ok(), "C06.fx.write_upvalue_ok");
    assert!(same(rig.stack_get(slot), Value::Integer(w)), "C06.fx.write_reaches_the_enclosing_variable");
    let other = if INDEX == 0 { o + 1 } else { o };
    assert!(
        same(rig.stack_get(other), Value::Integer(if INDEX == 0 { l1 } else { l0 })),
        "C06.fx.other_variable_untouched"
    );
    let mut ip = 0usize;
    assert!(instr::read_upvalue(&mut rig.vm, &u32bytes(0), &mut ip).is_ok(), "C06.fx.read_upvalue_ok");
    assert!(same(rig.stack_get(base as usize), Value::Integer(w)), "C06.fx.read_sees_the_variable");
    // a missing upvalue index is an error value
    let mut ip = 0usize;
    let r = instr::read_upvalue(&mut rig.vm, &u32bytes(3), &mut ip);
    assert!(matches!(&r, Err(e) if kind_of(e) == E_INVALID_UPVALUE), "C06.fx.missing_upvalue_is_an_error");
    std::mem::forget(r);
    std::mem::forget(rig);
    s.reached("fx.capture_write_read_close");
}

/// one closure capturing local INDEX of a frame at OFFSET: the upvalue aliases exactly that
/// variable; a write through it from the closure's own frame reaches the variable (and nothing
/// else), a read sees it
pub fn capture_one<S: Src, const OFFSET: u32, const INDEX: u8>(s: &mut S) {
    let mut rig = Rig::new(9, 3, 1 << 16);
    let _f = fillers(&mut rig, s, OFFSET);
    let o = OFFSET as usize;
    let (l0, l1) = (s.i64(), s.i64());
    rig.push(Value::Integer(l0));
    rig.push(Value::Integer(l1));
    let c = new_closure(&mut rig);
    rig.push(Value::Object(c));
    let mut ip = 0usize;
    assert!(instr::register_upvalue(&mut rig.vm, &[INDEX, 1], &mut ip).is_ok(), "C06.fx.register_ok");
    assert!(ip == 2, "C06.fx.register_consumes_operands");
    let up = upvalue_of(c, 0).unwrap();
    let slot = o + INDEX as usize;
    let expect = unsafe { rig.vm.runtime_data.verif_stack().as_slice().as_ptr().add(slot) };
    assert!(location_of(up) as *const Value == expect, "C06.fx.upvalue_aliases_the_enclosing_frames_local");
    let base = rig.stack_len() as u32;
    assert!(rig.vm.runtime_data.verif_push_frame(0, 0, base, Some(c)), "harness.frame");
    let w = s.i64();
    rig.push(Value::Integer(w));
    let mut ip = 0usize;
    assert!(instr::write_upvalue(&mut rig.vm, &u32bytes(0), &mut ip).is_ok(), "C06.fx.write_upvalue_ok");
    assert!(same(rig.stack_get(slot), Value::Integer(w)), "C06.fx.write_reaches_the_enclosing_variable");
    let other = if INDEX == 0 { o + 1 } else { o };
    assert!(
        same(rig.stack_get(other), Value::Integer(if INDEX == 0 { l1 } else { l0 })),
        "C06.fx.other_variable_untouched"
    );
    let mut ip = 0usize;
    assert!(instr::read_upvalue(&mut rig.vm, &u32bytes(0), &mut ip).is_ok(), "C06.fx.read_upvalue_ok");
    assert!(same(rig.stack_get(base as usize), Value::Integer(w)), "C06.fx.read_sees_the_variable");
    std::mem::forget(rig);
    s.reached("fx.capture_one");
}

/// two closures created in the same scope capture the same local: they share one upvalue
pub fn siblings_share<S: Src, const OFFSET: u32>(s: &mut S) {
    let mut rig = Rig::new(8, 3, 1 << 16);
    let _f = fillers(&mut rig, s, OFFSET);
    let x = s.i64();
    rig.push(Value::Integer(x));
    let c1 = new_closure(&mut rig);
    let c2 = new_closure(&mut rig);
    rig.push(Value::Object(c1));
    let mut ip = 0usize;
    assert!(instr::register_upvalue(&mut rig.vm, &[0, 1], &mut ip).is_ok(), "C06.fx.register_ok");
    rig.push(Value::Object(c2));
    let mut ip = 0usize;
    assert!(instr::register_upvalue(&mut rig.vm, &[0, 1], &mut ip).is_ok(), "C06.fx.register_ok");
    let u1 = upvalue_of(c1, 0);
    let u2 = upvalue_of(c2, 0);
    assert!(u1.is_some() && u1 == u2, "C06.fx.sibling_closures_share_the_variable");
    std::mem::forget(rig);
    s.reached("fx.siblings_share");
}

/// the scope of the captured variable ends (it is the top of the stack): the closure keeps its
/// own copy of the last value, later writes to the dead slot do not reach it
pub fn close_keeps_value<S: Src, const OFFSET: u32>(s: &mut S) {
    let mut rig = Rig::new(12, 4, 1 << 16);
    let _f = fillers(&mut rig, s, OFFSET);
    let o = OFFSET as usize;
    let x = s.i64();
    rig.push(Value::Integer(x));
    let c = new_closure(&mut rig);
    rig.push(Value::Object(c));
    let mut ip = 0usize;
    assert!(instr::register_upvalue(&mut rig.vm, &[0, 1], &mut ip).is_ok(), "C06.fx.register_ok");
    let up = upvalue_of(c, 0).unwrap();
    assert!(!rig.vm.runtime_data.verif_open_upvalues().is_null(), "C06.fx.upvalue_is_open");
    assert!(instr::close_upvalues(&mut rig.vm).is_ok(), "C06.fx.close_ok");
    assert!(rig.vm.runtime_data.verif_open_upvalues().is_null(), "C06.fx.no_open_upvalue_left");
    let _ = o;
    assert!(is_closed(up), "C06.fx.closed_upvalue_no_longer_points_into_the_stack");
    let v = unsafe { *location_of(up) };
    assert!(same(v, Value::Integer(x)), "C06.fx.closure_keeps_last_value_after_scope_exit");
    std::mem::forget(rig);
    s.reached("fx.close_keeps_value");
}

/// Return closes the upvalues of the frame being left
pub fn return_closes_upvalues<S: Src>(s: &mut S) {
    let mut rig = Rig::new(12, 4, 1 << 16);
    let f0 = s.i64();
    rig.push(Value::Integer(f0));
    assert!(rig.vm.runtime_data.verif_push_frame(5, 6, 1, None), "harness.frame");
    let x = s.i64();
    rig.push(Value::Integer(x));
    let c = new_closure(&mut rig);
    rig.push(Value::Object(c));
    let mut ip = 0usize;
    assert!(instr::register_upvalue(&mut rig.vm, &[0, 1], &mut ip).is_ok(), "C06.fx.register_ok");
    let up = upvalue_of(c, 0).unwrap();
    // return the closure itself
    rig.push(Value::Object(c));
    let mut ip = 50usize;
    assert!(instr::instr_return(&mut rig.vm, &mut ip).is_ok(), "C06.fx.return_ok");
    assert!(rig.vm.runtime_data.verif_open_upvalues().is_null(), "C06.fx.return_closes_the_frames_upvalues");
    assert!(rig.stack_len() == 2, "C06.fx.frame_removed");
    assert!(same(rig.stack_get(0), Value::Integer(f0)), "C06.fx.caller_slot_untouched");
    assert!(same(rig.stack_get(1), Value::Object(c)), "C06.fx.closure_returned");
    assert!(is_closed(up), "C06.fx.closed_upvalue_no_longer_points_into_the_stack");
    let v = unsafe { *location_of(up) };
    assert!(same(v, Value::Integer(x)), "C06.fx.closure_keeps_last_value_after_scope_exit");
    std::mem::forget(rig);
    s.reached("fx.return_closes_upvalues");
}

/// two different locals captured (by two closures, in ORDER 0 = ascending / 1 = descending slot
/// order), then the function returns: both closures keep their own copy of the last value, no
/// upvalue is left pointing into the dead frame
pub fn two_locals_then_return<S: Src, const ORDER: u8>(s: &mut S) {
    let mut rig = Rig::new(8, 3, 1 << 16);
    let f0 = s.i64();
    rig.push(Value::Integer(f0));
    assert!(rig.vm.runtime_data.verif_push_frame(5, 6, 1, None), "harness.frame");
    let (a, b) = (s.i64(), s.i64());
    rig.push(Value::Integer(a)); // local 0
    rig.push(Value::Integer(b)); // local 1
    let ca = new_closure(&mut rig);
    let cb = new_closure(&mut rig);
    let (first, second) = if ORDER == 0 { (0u8, 1u8) } else { (1u8, 0u8) };
    rig.push(Value::Object(ca));
    let mut ip = 0usize;
    assert!(instr::register_upvalue(&mut rig.vm, &[first, 1], &mut ip).is_ok(), "C06.fx.register_ok");
    rig.push(Value::Object(cb));
    let mut ip = 0usize;
    assert!(instr::register_upvalue(&mut rig.vm, &[second, 1], &mut ip).is_ok(), "C06.fx.register_ok");
    let ua = upvalue_of(ca, 0).unwrap();
    let ub = upvalue_of(cb, 0).unwrap();
    assert!(ua != ub, "C06.fx.distinct_variables_get_distinct_upvalues");
    rig.push(Value::Nil);
    let mut ip = 50usize;
    assert!(instr::instr_return(&mut rig.vm, &mut ip).is_ok(), "C06.fx.return_ok");
    assert!(rig.vm.runtime_data.verif_open_upvalues().is_null(), "C06.fx.return_closes_the_frames_upvalues");
    // the frame is gone: neither upvalue may still point at its dead slots
    assert!(is_closed(ua), "C06.fx.first_upvalue_closed_by_return");
    assert!(is_closed(ub), "C06.fx.second_upvalue_closed_by_return");
    let va = unsafe { *location_of(ua) };
    let vb = unsafe { *location_of(ub) };
    let (ea, eb) = if ORDER == 0 { (a, b) } else { (b, a) };
    assert!(same(va, Value::Integer(ea)), "C06.fx.first_closure_keeps_its_variable_after_return");
    assert!(same(vb, Value::Integer(eb)), "C06.fx.second_closure_keeps_its_variable_after_return");
    std::mem::forget(rig);
    s.reached("fx.two_locals_then_return");
}

/// a lower slot stays captured and open while a higher slot is captured and its scope ends
/// (CloseUpvalue with the higher slot on top): exactly the higher one is closed
pub fn inner_scope_closes_only_its_variable<S: Src>(s: &mut S) {
    let mut rig = Rig::new(8, 3, 1 << 16);
    let (a, b) = (s.i64(), s.i64());
    rig.push(Value::Integer(a)); // slot 0, outer scope
    let ca = new_closure(&mut rig);
    rig.push(Value::Object(ca));
    let mut ip = 0usize;
    assert!(instr::register_upvalue(&mut rig.vm, &[0, 1], &mut ip).is_ok(), "C06.fx.register_ok");
    rig.push(Value::Integer(b)); // slot 1, inner scope (e.g. a loop body)
    let cb = new_closure(&mut rig);
    rig.push(Value::Object(cb));
    let mut ip = 0usize;
    assert!(instr::register_upvalue(&mut rig.vm, &[1, 1], &mut ip).is_ok(), "C06.fx.register_ok");
    let ua = upvalue_of(ca, 0).unwrap();
    let ub = upvalue_of(cb, 0).unwrap();
    // inner scope ends: slot 1 is the top of the stack
    assert!(instr::close_upvalues(&mut rig.vm).is_ok(), "C06.fx.close_ok");
    let base = unsafe { rig.vm.runtime_data.verif_stack().as_slice().as_ptr() };
    assert!(location_of(ub) as *const Value != unsafe { base.add(1) }, "C06.fx.inner_variable_is_closed_at_its_scope_end");
    assert!(location_of(ua) as *const Value == base, "C06.fx.outer_variable_stays_shared_while_its_scope_lives");
    assert!(is_closed(ub), "C06.fx.inner_variable_is_closed_at_its_scope_end");
    assert!(!is_closed(ua), "C06.fx.outer_variable_stays_shared_while_its_scope_lives");
    assert!(same(unsafe { *location_of(ub) }, Value::Integer(b)), "C06.fx.each_iteration_captures_a_distinct_variable");
    std::mem::forget(rig);
    s.reached("fx.inner_scope_closes_only_its_variable");
}

/// globals through instr_set_var / instr_read_var
pub fn globals<S: Src>(s: &mut S) {
    let mut rig = Rig::new(8, 4, 1 << 16);
    let (x, y) = (s.i64(), s.i64());
    rig.push(Value::Integer(x));
    rig.push(Value::Integer(y));
    let mut ip = 0usize;
    assert!(instr::instr_set_var(&mut rig.vm.runtime_data, &u32bytes(2), &mut ip).is_ok(), "C01.fx.set_var_ok");
    let mut ip = 0usize;
    assert!(instr::instr_set_var(&mut rig.vm.runtime_data, &u32bytes(0), &mut ip).is_ok(), "C01.fx.set_var_ok");
    assert!(same(rig.global(2).unwrap_or(Value::Nil), Value::Integer(y)), "C01.fx.set_global_stores_top");
    assert!(same(rig.global(0).unwrap_or(Value::Nil), Value::Integer(x)), "C01.fx.set_global_second");
    assert!(same(rig.global(1).unwrap_or(Value::Integer(1)), Value::Nil), "C01.fx.unset_global_is_nil");
    assert!(rig.stack_len() == 0, "C01.fx.set_var_pops");
    rig.prog.bytecode = vec![2, 0, 0, 0, 9, 0, 0, 0];
    let mut ip = 0usize;
    assert!(instr::instr_read_var(&mut rig.vm.runtime_data, &mut ip, &rig.prog).is_ok(), "C01.fx.read_var_ok");
    assert!(ip == 4 && same(rig.stack_get(0), Value::Integer(y)), "C01.fx.read_global_pushes_value");
    let r = instr::instr_read_var(&mut rig.vm.runtime_data, &mut ip, &rig.prog);
    assert!(matches!(&r, Err(e) if kind_of(e) == E_VAR_NOT_FOUND), "C01.fx.unknown_global_is_var_not_found");
    std::mem::forget(r);
    std::mem::forget(rig);
    s.reached("fx.globals");
}

/// probes (cost bisection of the upvalue harnesses)
pub fn probe_up<S: Src, const STAGE: u8>(s: &mut S) {
    let mut rig = Rig::new(6, 2, 1 << 16);
    let x = s.i64();
    rig.push(Value::Integer(x));
    let c = new_closure(&mut rig);
    rig.push(Value::Object(c));
    let mut ip = 0usize;
    assert!(instr::register_upvalue(&mut rig.vm, &[0, 1], &mut ip).is_ok(), "C06.fx.register_ok");
    let up = upvalue_of(c, 0).unwrap();
    let expect = unsafe { rig.vm.runtime_data.verif_stack().as_slice().as_ptr() };
    assert!(location_of(up) as *const Value == expect, "C06.fx.upvalue_aliases_the_enclosing_frames_local");
    if STAGE >= 1 {
        let v = unsafe { *location_of(up) };
        assert!(same(v, Value::Integer(x)), "C06.fx.read_sees_the_variable");
    }
    if STAGE >= 5 {
        // write (and read) through the upvalue from the closure's own frame
        assert!(rig.vm.runtime_data.verif_push_frame(0, 0, 1, Some(c)), "harness.frame");
        let w = s.i64();
        rig.push(Value::Integer(w));
        let mut ip = 0usize;
        assert!(instr::write_upvalue(&mut rig.vm, &u32bytes(0), &mut ip).is_ok(), "C06.fx.write_upvalue_ok");
        assert!(same(rig.stack_get(0), Value::Integer(w)), "C06.fx.write_reaches_the_enclosing_variable");
        if STAGE >= 6 {
            let mut ip = 0usize;
            assert!(instr::read_upvalue(&mut rig.vm, &u32bytes(0), &mut ip).is_ok(), "C06.fx.read_upvalue_ok");
            assert!(same(rig.stack_get(1), Value::Integer(w)), "C06.fx.read_sees_the_variable");
        }
        std::mem::forget(rig);
        s.reached("fx.probe_up");
        return;
    }
    if STAGE >= 2 {
        assert!(instr::close_upvalues(&mut rig.vm).is_ok(), "C06.fx.close_ok");
    }
    if STAGE >= 3 {
        let v = unsafe { *location_of(up) };
        assert!(same(v, Value::Integer(x)), "C06.fx.closure_keeps_last_value_after_scope_exit");
    }
    if STAGE >= 4 {
        let y = s.i64();
        let _ = rig.vm.runtime_data.verif_stack().set(0, Value::Integer(y));
        let v = unsafe { *location_of(up) };
        assert!(same(v, Value::Integer(x)), "C06.fx.closure_keeps_last_value_after_scope_exit");
    }
    std::mem::forget(rig);
    s.reached("fx.probe_up");
}

crate::harnesses! {
    #[kani::stub(alloc::fmt::format, crate::stub_format)]
    fx_probe_up0 / 18 => probe_up::<_, 0>;
    #[kani::stub(alloc::fmt::format, crate::stub_format)]
    fx_probe_up1 / 18 => probe_up::<_, 1>;
    #[kani::stub(alloc::fmt::format, crate::stub_format)]
    fx_probe_up2 / 18 => probe_up::<_, 2>;
    #[kani::stub(alloc::fmt::format, crate::stub_format)]
    fx_probe_up3 / 18 => probe_up::<_, 3>;
    #[kani::stub(alloc::fmt::format, crate::stub_format)]
    fx_probe_up4 / 18 => probe_up::<_, 4>;
    #[kani::stub(alloc::fmt::format, crate::stub_format)]
    fx_probe_up5 / 18 => probe_up::<_, 5>;
    #[kani::stub(alloc::fmt::format, crate::stub_format)]
    fx_probe_up6 / 18 => probe_up::<_, 6>;
    #[kani::stub(alloc::fmt::format, crate::stub_format)]
    fx_c01_locals_off0 / 18 => locals::<_, 0>;
    #[kani::stub(alloc::fmt::format, crate::stub_format)]
    fx_c01_locals_off2 / 18 => locals::<_, 2>;
    #[kani::stub(alloc::fmt::format, crate::stub_format)]
    fx_c01_call_return_off0_arg0 / 18 => call_and_return::<_, 0, 0>;
    #[kani::stub(alloc::fmt::format, crate::stub_format)]
    fx_c01_call_return_off2_arg1 / 18 => call_and_return::<_, 2, 1>;
    #[kani::stub(alloc::fmt::format, crate::stub_format)]
    fx_c01_globals / 18 => globals;
    #[kani::stub(alloc::fmt::format, crate::stub_format)]
    fx_c04_call_non_function / 18 => call_errors::<_, 0>;
    #[kani::stub(alloc::fmt::format, crate::stub_format)]
    fx_c04_call_unknown_label / 18 => call_errors::<_, 1>;
    #[kani::stub(alloc::fmt::format, crate::stub_format)]
    fx_c04_call_missing_argument / 18 => call_errors::<_, 2>;
    #[kani::stub(alloc::fmt::format, crate::stub_format)]
    fx_c04_call_stack_full / 18 => call_errors::<_, 3>;
    #[kani::stub(alloc::fmt::format, crate::stub_format)]
    fx_c06_capture_one_off0_idx0 / 18 => capture_one::<_, 0, 0>;
    #[kani::stub(alloc::fmt::format, crate::stub_format)]
    fx_c06_capture_one_off0_idx1 / 18 => capture_one::<_, 0, 1>;
    #[kani::stub(alloc::fmt::format, crate::stub_format)]
    fx_c06_capture_one_off2_idx1 / 18 => capture_one::<_, 2, 1>;
    #[kani::stub(alloc::fmt::format, crate::stub_format)]
    fx_c06_capture_one_off3_idx0 / 18 => capture_one::<_, 3, 0>;
    #[kani::stub(alloc::fmt::format, crate::stub_format)]
    fx_c06_siblings_share_off0 / 18 => siblings_share::<_, 0>;
    #[kani::stub(alloc::fmt::format, crate::stub_format)]
    fx_c06_siblings_share_off2 / 18 => siblings_share::<_, 2>;
    #[kani::stub(alloc::fmt::format, crate::stub_format)]
    fx_c06_capture_off0_idx0 / 18 => capture_write_read_close::<_, 0, 0>;
    #[kani::stub(alloc::fmt::format, crate::stub_format)]
    fx_c06_capture_off2_idx1 / 18 => capture_write_read_close::<_, 2, 1>;
    #[kani::stub(alloc::fmt::format, crate::stub_format)]
    fx_c06_capture_off3_idx0 / 18 => capture_write_read_close::<_, 3, 0>;
    #[kani::stub(alloc::fmt::format, crate::stub_format)]
    fx_c06_close_keeps_value_off0 / 18 => close_keeps_value::<_, 0>;
    #[kani::stub(alloc::fmt::format, crate::stub_format)]
    fx_c06_close_keeps_value_off2 / 18 => close_keeps_value::<_, 2>;
    #[kani::stub(alloc::fmt::format, crate::stub_format)]
    fx_c06_return_closes_upvalues / 18 => return_closes_upvalues;
    #[kani::stub(alloc::fmt::format, crate::stub_format)]
    fx_c06_two_locals_ascending_then_return / 18 => two_locals_then_return::<_, 0>;
    #[kani::stub(alloc::fmt::format, crate::stub_format)]
    fx_c06_two_locals_descending_then_return / 18 => two_locals_then_return::<_, 1>;
    #[kani::stub(alloc::fmt::format, crate::stub_format)]
    fx_c06_inner_scope_closes_only_its_variable / 18 => inner_scope_closes_only_its_variable;
}
