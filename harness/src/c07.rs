//! C07 — tables are insertion-ordered maps keyed by value (host-API level, single steps).
//!
//! Measured (DESIGN §0): one symbolic insert + one symbolic get on the real
//! `CaoHashMap<Value,Value,AllocProxy>` closes, histories of two or more symbolic operations do
//! not. So: a catalogue of pre-states built with concrete keys, one operation with solver-chosen
//! key/value, one solver-chosen observation, against an insertion-ordered association list.
use crate::Src;
use cao_lang::prelude::{CaoLangTable, Value};
use cao_lang::verif_hooks::{AllocProxy, CaoLangAllocator};

const MAXE: usize = 8;

pub fn proxy() -> AllocProxy {
    CaoLangAllocator::new(std::ptr::null_mut(), 1 << 30).into()
}

/// insertion-ordered association list with integer keys
pub struct Model {
    pub keys: [i64; MAXE],
    pub vals: [i64; MAXE],
    pub n: usize,
}

impl Model {
    pub fn get(&self, k: i64) -> Option<i64> {
        let mut i = 0;
        while i < self.n {
            if self.keys[i] == k {
                return Some(self.vals[i]);
            }
            i += 1;
        }
        None
    }
    pub fn set(&mut self, k: i64, v: i64) {
        let mut i = 0;
        while i < self.n {
            if self.keys[i] == k {
                self.vals[i] = v;
                return;
            }
            i += 1;
        }
        self.keys[self.n] = k;
        self.vals[self.n] = v;
        self.n += 1;
    }
    pub fn remove(&mut self, k: i64) {
        let mut i = 0;
        let mut w = 0;
        while i < self.n {
            if self.keys[i] != k {
                self.keys[w] = self.keys[i];
                self.vals[w] = self.vals[i];
                w += 1;
            }
            i += 1;
        }
        self.n = w;
    }
}

/// catalogue of concrete pre-states (keys in an insertion order that differs from key order)
pub fn pre_state(which: u8) -> (CaoLangTable, Model) {
    let mut t = CaoLangTable::with_capacity(8, proxy()).unwrap();
    let mut m = Model {
        keys: [0; MAXE],
        vals: [0; MAXE],
        n: 0,
    };
    let script: &[(i64, i64)] = match which {
        0 => &[],
        1 => &[(10, 100)],
        2 => &[(10, 100), (3, 30), (7, 70)],
        // 0,1,2 as an array would have them; then an explicit key beyond the length
        3 => &[(0, 5), (1, 6), (2, 7), (4, 9)],
        // the last inserted key happens to be len-1 although key `len` is taken
        5 => &[(2, 20), (1, 10)],
        // one below the growth threshold of the initial 8 buckets
        _ => &[(10, 100), (3, 30), (7, 70), (1, 11), (-5, 55)],
    };
    let mut i = 0;
    while i < script.len() {
        t.insert(Value::Integer(script[i].0), Value::Integer(script[i].1)).unwrap();
        m.set(script[i].0, script[i].1);
        i += 1;
    }
    (t, m)
}

fn ival(v: Option<&Value>) -> Option<i64> {
    match v {
        Some(Value::Integer(i)) => Some(*i),
        Some(_) => Some(i64::MIN),
        None => None,
    }
}

/// observation: get by a solver-chosen key, len, and the key at a solver-chosen position
fn observe<S: Src>(t: &CaoLangTable, m: &Model, s: &mut S) {
    assert!(t.len() == m.n, "C07.len_counts_distinct_keys");
    let q = s.i64();
    assert!(ival(t.get(&Value::Integer(q))) == m.get(q), "C07.get_returns_last_value_set_or_nothing");
    let i = s.below(MAXE as u8) as usize;
    let k = t.nth_key(i);
    if i < m.n {
        assert!(matches!(k, Value::Integer(x) if x == m.keys[i]), "C07.nth_key_follows_insertion_order");
    } else {
        assert!(matches!(k, Value::Nil), "C07.nth_key_beyond_length_is_nil");
    }
}

pub fn set_then_observe<S: Src, const PRE: u8>(s: &mut S) {
    let (mut t, mut m) = pre_state(PRE);
    let k = s.i64();
    let v = s.i64();
    assert!(t.insert(Value::Integer(k), Value::Integer(v)).is_ok(), "C07.set_ok");
    m.set(k, v);
    observe(&t, &m, s);
    std::mem::forget(t);
    s.reached("c07.set_then_observe");
}

pub fn remove_then_observe<S: Src, const PRE: u8>(s: &mut S) {
    let (mut t, mut m) = pre_state(PRE);
    let k = s.i64();
    assert!(t.remove(Value::Integer(k)).is_ok(), "C07.remove_ok");
    m.remove(k);
    observe(&t, &m, s);
    std::mem::forget(t);
    s.reached("c07.remove_then_observe");
}

/// append stores under the smallest unused integer key not below the current length
pub fn append_then_observe<S: Src, const PRE: u8>(s: &mut S) {
    let (mut t, mut m) = pre_state(PRE);
    let v = s.i64();
    assert!(t.append(Value::Integer(v)).is_ok(), "C07.append_ok");
    let mut k = m.n as i64;
    while m.get(k).is_some() {
        k += 1;
    }
    m.set(k, v);
    assert!(ival(t.get(&Value::Integer(k))) == Some(v), "C07.append_key_is_smallest_unused_not_below_length");
    observe(&t, &m, s);
    std::mem::forget(t);
    s.reached("c07.append_then_observe");
}

/// pop removes and returns the most recently inserted entry's value; afterwards that key is absent
pub fn pop_then_observe<S: Src, const PRE: u8>(s: &mut S) {
    let (mut t, mut m) = pre_state(PRE);
    // make the last value solver-chosen
    if m.n > 0 {
        let v = s.i64();
        let k = m.keys[m.n - 1];
        t.insert(Value::Integer(k), Value::Integer(v)).unwrap();
        m.set(k, v);
    }
    let r = t.pop();
    if m.n == 0 {
        assert!(matches!(r, Ok(Value::Nil)), "C07.pop_on_empty_is_nil");
    } else {
        let k = m.keys[m.n - 1];
        let v = m.vals[m.n - 1];
        assert!(matches!(r, Ok(Value::Integer(x)) if x == v), "C07.pop_returns_most_recent_value");
        m.remove(k);
        assert!(t.get(&Value::Integer(k)).is_none(), "C07.popped_key_is_absent");
    }
    observe(&t, &m, s);
    std::mem::forget(t);
    s.reached("c07.pop_then_observe");
}

/// pop followed by append: the freed index is reused
pub fn pop_then_append<S: Src, const PRE: u8>(s: &mut S) {
    let (mut t, mut m) = pre_state(PRE);
    let _ = t.pop();
    if m.n > 0 {
        let k = m.keys[m.n - 1];
        m.remove(k);
    }
    let v = s.i64();
    assert!(t.append(Value::Integer(v)).is_ok(), "C07.append_ok");
    let mut k = m.n as i64;
    while m.get(k).is_some() {
        k += 1;
    }
    m.set(k, v);
    observe(&t, &m, s);
    std::mem::forget(t);
    s.reached("c07.pop_then_append");
}

/// nil and real keys: reading through an equal key returns the value
pub fn nil_and_real_keys<S: Src>(s: &mut S) {
    let (mut t, _m) = pre_state(1);
    let v = s.i64();
    let w = s.i64();
    let r = s.f64();
    s.assume(r.is_finite() && r != 0.0);
    assert!(t.insert(Value::Nil, Value::Integer(v)).is_ok(), "C07.set_ok");
    assert!(t.insert(Value::Real(r), Value::Integer(w)).is_ok(), "C07.set_ok");
    assert!(ival(t.get(&Value::Nil)) == Some(v), "C07.nil_key_reads_back");
    assert!(ival(t.get(&Value::Real(r))) == Some(w), "C07.real_key_reads_back");
    assert!(t.len() == 3, "C07.len_counts_distinct_keys");
    assert!(ival(t.get(&Value::Integer(10))) == Some(100), "C07.other_keys_untouched");
    std::mem::forget(t);
    s.reached("c07.nil_and_real_keys");
}

/// full observation against the model: length, every model key readable with its value, keys in
/// insertion order, a few absent keys absent
fn observe_all(t: &CaoLangTable, m: &Model) {
    assert!(t.len() == m.n, "C07.len_counts_distinct_keys");
    let mut i = 0;
    while i < MAXE {
        let k = t.nth_key(i);
        if i < m.n {
            assert!(matches!(k, Value::Integer(x) if x == m.keys[i]), "C07.nth_key_follows_insertion_order");
            assert!(ival(t.get(&Value::Integer(m.keys[i]))) == Some(m.vals[i]), "C07.get_returns_last_value_set_or_nothing");
        } else {
            assert!(matches!(k, Value::Nil), "C07.nth_key_beyond_length_is_nil");
        }
        i += 1;
    }
    let mut n = 0;
    for (k, v) in t.iter() {
        assert!(n < m.n, "C07.iter_visits_each_entry_once");
        assert!(matches!(k, Value::Integer(x) if *x == m.keys[n]), "C07.iter_follows_insertion_order");
        assert!(matches!(v, Value::Integer(x) if *x == m.vals[n]), "C07.iter_yields_current_values");
        n += 1;
    }
    assert!(n == m.n, "C07.iter_visits_each_entry_once");
}

/// Scripts of operations with CONCRETE keys and solver-chosen VALUES (key hashing and probing
/// then fold to constants, which is what makes longer sequences affordable): after every
/// operation the table is compared with the insertion-ordered model in full.
/// ops: (0,k) set k; (1,k) remove k; (2,_) append; (3,_) pop
pub fn script<S: Src, const WHICH: u8>(s: &mut S) {
    let ops: &[(u8, i64)] = match WHICH {
        0 => &[(0, 10), (0, 3), (0, 7), (1, 10)],
        1 => &[(2, 0), (2, 0), (3, 0), (2, 0)],
        2 => &[(0, 5), (0, -2), (1, 5), (3, 0), (3, 0)],
        _ => &[(0, 1), (0, 2), (1, 1), (0, 1)],
    };
    let mut t = CaoLangTable::with_capacity(8, proxy()).unwrap();
    let mut m = Model {
        keys: [0; MAXE],
        vals: [0; MAXE],
        n: 0,
    };
    let mut i = 0;
    while i < ops.len() {
        let (op, k) = ops[i];
        match op {
            0 => {
                let v = s.i64();
                assert!(t.insert(Value::Integer(k), Value::Integer(v)).is_ok(), "C07.set_ok");
                m.set(k, v);
            }
            1 => {
                assert!(t.remove(Value::Integer(k)).is_ok(), "C07.remove_ok");
                m.remove(k);
            }
            2 => {
                let v = s.i64();
                assert!(t.append(Value::Integer(v)).is_ok(), "C07.append_ok");
                let mut key = m.n as i64;
                while m.get(key).is_some() {
                    key += 1;
                }
                m.set(key, v);
            }
            _ => {
                let r = t.pop();
                if m.n == 0 {
                    assert!(matches!(r, Ok(Value::Nil)), "C07.pop_on_empty_is_nil");
                } else {
                    let (pk, pv) = (m.keys[m.n - 1], m.vals[m.n - 1]);
                    assert!(matches!(r, Ok(Value::Integer(x)) if x == pv), "C07.pop_returns_most_recent_value");
                    m.remove(pk);
                    assert!(t.get(&Value::Integer(pk)).is_none(), "C07.popped_key_is_absent");
                }
            }
        }
        assert!(t.len() == m.n, "C07.len_counts_distinct_keys");
        i += 1;
    }
    observe_all(&t, &m);
    std::mem::forget(t);
    s.reached("c07.script");
}

/// set(any key, any value) on the empty table, then pop: the value comes back, the key is absent
/// (from the key list AND the hash part), the table is empty, and an append then uses index 0
pub fn set_then_pop<S: Src, const APPEND: bool>(s: &mut S) {
    let mut t = CaoLangTable::with_capacity(8, proxy()).unwrap();
    let k = s.i64();
    let v = s.i64();
    assert!(t.insert(Value::Integer(k), Value::Integer(v)).is_ok(), "C07.set_ok");
    let r = t.pop();
    assert!(matches!(r, Ok(Value::Integer(x)) if x == v), "C07.pop_returns_most_recent_value");
    assert!(t.get(&Value::Integer(k)).is_none(), "C07.popped_key_is_absent");
    assert!(t.len() == 0, "C07.len_counts_distinct_keys");
    assert!(matches!(t.nth_key(0), Value::Nil), "C07.nth_key_beyond_length_is_nil");
    if APPEND {
        let w = s.i64();
        assert!(t.append(Value::Integer(w)).is_ok(), "C07.append_ok");
        assert!(ival(t.get(&Value::Integer(0))) == Some(w), "C07.append_key_is_smallest_unused_not_below_length");
        assert!(t.len() == 1, "C07.len_counts_distinct_keys");
    }
    std::mem::forget(t);
    s.reached("c07.set_then_pop");
}

/// append on a table whose explicit integer keys were set out of order: the value goes under the
/// smallest unused integer key not below the length, nothing is overwritten (all values
/// solver-chosen, full comparison with the model)
pub fn append_concrete_keys<S: Src, const PRE: u8>(s: &mut S) {
    let (mut t, mut m) = pre_state(PRE);
    let v = s.i64();
    assert!(t.append(Value::Integer(v)).is_ok(), "C07.append_ok");
    let mut k = m.n as i64;
    while m.get(k).is_some() {
        k += 1;
    }
    m.set(k, v);
    observe_all(&t, &m);
    std::mem::forget(t);
    s.reached("c07.append_concrete_keys");
}

crate::harnesses! {
    c07_append_keys_2_1 / 12 => append_concrete_keys::<_, 5>;
    c07_append_keys_0_1_2_4 / 12 => append_concrete_keys::<_, 3>;
    c07_set_then_pop / 12 => set_then_pop::<_, false>;
    c07_set_then_pop_then_append / 12 => set_then_pop::<_, true>;
    c07_script_0 / 12 => script::<_, 0>;
    c07_script_1 / 12 => script::<_, 1>;
    c07_script_2 / 12 => script::<_, 2>;
    c07_script_3 / 12 => script::<_, 3>;
    c07_set_pre0 / 12 => set_then_observe::<_, 0>;
    c07_set_pre2 / 12 => set_then_observe::<_, 2>;
    c07_set_pre4_growth / 16 => set_then_observe::<_, 4>;
    c07_remove_pre2 / 12 => remove_then_observe::<_, 2>;
    c07_remove_pre4 / 12 => remove_then_observe::<_, 4>;
    c07_append_pre0 / 12 => append_then_observe::<_, 0>;
    c07_append_pre3_gap / 12 => append_then_observe::<_, 3>;
    c07_pop_pre0 / 12 => pop_then_observe::<_, 0>;
    c07_pop_pre2 / 12 => pop_then_observe::<_, 2>;
    c07_pop_pre3 / 12 => pop_then_observe::<_, 3>;
    c07_pop_then_append_pre3 / 12 => pop_then_append::<_, 3>;
    c07_nil_and_real_keys / 12 => nil_and_real_keys;
}
