//! C01 — compiled programs compute what the card language defines (layers 1 and 2 of DESIGN §3).
//!
//! Layer 1: the value-level operators against the reference numeric rules, per kind pair, all
//! payloads. Layer 2: short instruction sequences executed by the real interpreter loop on a
//! small VM; literal operands are solver-chosen (the 8 operand bytes of `ScalarInt`), shapes are
//! concrete.
use crate::vmh::*;
use crate::Src;
use cao_lang::compiled_program::Label;
use cao_lang::prelude::*;

pub const NIL: u8 = 0;
pub const INT: u8 = 1;
pub const REAL: u8 = 2;

fn sym_scalar<S: Src>(kind: u8, s: &mut S) -> Value {
    match kind {
        NIL => Value::Nil,
        INT => Value::Integer(s.i64()),
        _ => {
            let r = s.f64();
            s.assume(!r.is_nan());
            Value::Real(r)
        }
    }
}

fn as_i(v: Value) -> i64 {
    match v {
        Value::Integer(i) => i,
        _ => 0,
    }
}
fn as_f(v: Value) -> f64 {
    match v {
        Value::Integer(i) => i as f64,
        Value::Real(r) => r,
        _ => 0.0,
    }
}

/// reference arithmetic: either real => both as reals; else either integer => both as integers
/// (nil counts as 0); two nils => nil. `None` = integer overflow (defined result not specified).
fn ref_arith(opc: u8, a: Value, b: Value, ka: u8, kb: u8) -> Option<Value> {
    if ka == REAL || kb == REAL {
        let (x, y) = (as_f(a), as_f(b));
        Some(Value::Real(match opc {
            0 => x + y,
            1 => x - y,
            2 => x * y,
            _ => x / y,
        }))
    } else if ka == INT || kb == INT {
        let (x, y) = (as_i(a), as_i(b));
        match opc {
            0 => x.checked_add(y).map(Value::Integer),
            1 => x.checked_sub(y).map(Value::Integer),
            2 => x.checked_mul(y).map(Value::Integer),
            _ => Some(Value::Real(x as f64 / y as f64)),
        }
    } else {
        Some(Value::Nil)
    }
}

fn real_same(a: Value, b: Value) -> bool {
    // NaN results compare equal to NaN results
    match (a, b) {
        (Value::Real(x), Value::Real(y)) => (x.is_nan() && y.is_nan()) || x == y,
        _ => same(a, b),
    }
}

/// a OP b for OP in {+,-} (and * / for non-real pairs) on the value level
pub fn value_arith<S: Src, const KA: u8, const KB: u8, const OPC: u8>(s: &mut S) {
    let a = sym_scalar(KA, s);
    let b = sym_scalar(KB, s);
    let r = match OPC {
        0 => a + b,
        1 => a - b,
        2 => a * b,
        _ => a / b,
    };
    if let Some(e) = ref_arith(OPC, a, b, KA, KB) {
        assert!(real_same(r, e), "C01.value.arithmetic_follows_numeric_coercion");
    }
    s.reached("c01.value_arith");
}

// ------------------------------------------------------------------ layer 2

fn ref_binop(opc: u8, a: i64, b: i64) -> Option<Value> {
    let t = |x: bool| Some(Value::Integer(x as i64));
    if opc == op::ADD {
        a.checked_add(b).map(Value::Integer)
    } else if opc == op::SUB {
        a.checked_sub(b).map(Value::Integer)
    } else if opc == op::MUL {
        a.checked_mul(b).map(Value::Integer)
    } else if opc == op::EQUALS {
        t(a == b)
    } else if opc == op::NOT_EQUALS {
        t(a != b)
    } else if opc == op::LESS {
        t(a < b)
    } else if opc == op::LESS_OR_EQ {
        t(a <= b)
    } else if opc == op::AND {
        t(a != 0 && b != 0)
    } else if opc == op::OR {
        t(a != 0 || b != 0)
    } else if opc == op::XOR {
        t((a != 0) ^ (b != 0))
    } else {
        None
    }
}

fn opcode_of(sel: u8) -> u8 {
    match sel {
        0 => op::ADD,
        1 => op::SUB,
        2 => op::MUL,
        3 => op::EQUALS,
        4 => op::NOT_EQUALS,
        5 => op::LESS,
        6 => op::LESS_OR_EQ,
        7 => op::AND,
        8 => op::OR,
        _ => op::XOR,
    }
}

/// `x OP y` compiled as [ScalarInt x][ScalarInt y][OP][SetGlobalVar 0][Exit], all i64 x, y:
/// operand decoding, operand order, result placement and the global store
pub fn vm_binop_int<S: Src, const SEL: u8>(s: &mut S) {
    let mut rig = Rig::new(8, 4, 1 << 16);
    let x = s.i64();
    let y = s.i64();
    let opc = opcode_of(SEL);
    let e = ref_binop(opc, x, y);
    // overflow is C04's business
    s.assume(e.is_some());
    let mut a = Asm::new();
    a.int(x).int(y).op(opc).set_global(0).exit();
    let (res, _ip) = rig.run(a);
    assert!(res.is_ok(), "C01.vm.binop_program_succeeds");
    let g = rig.global(0);
    assert!(g.is_some() && same(g.unwrap(), e.unwrap()), "C01.vm.binop_result_in_global");
    assert!(rig.stack_len() == 0, "C01.vm.binop_stack_balanced");
    std::mem::forget(rig);
    s.reached("c01.vm_binop_int");
}

/// locals live at frame offset + index; slots below the frame are untouched.
/// (whole-VM runs beyond ~5 dispatches do not close, DESIGN §0: state is prepared through the
/// hooks and each program has at most 5 instructions)
pub fn vm_locals<S: Src, const OFFSET: u32>(s: &mut S) {
    let mut rig = Rig::new(12, 4, 1 << 16);
    let f0 = s.i64();
    let f1 = s.i64();
    let mut k = 0;
    while k < OFFSET {
        rig.push(Value::Integer(if k == 0 { f0 } else { f1 }));
        k += 1;
    }
    if OFFSET > 0 {
        let ok = rig.vm.runtime_data.verif_push_frame(0, 0, OFFSET, None);
        assert!(ok, "harness.frame");
    }
    let x = s.i64();
    let y = s.i64();
    rig.push(Value::Integer(x));
    let mut a = Asm::new();
    a.set_local(0).int(y).set_local(1).read_local(0).exit();
    let (res, _) = rig.run(a);
    assert!(res.is_ok(), "C01.vm.locals_program_succeeds");
    let o = OFFSET as usize;
    assert!(rig.stack_len() == o + 3, "C01.vm.locals_height");
    assert!(same(rig.stack_get(o), Value::Integer(x)), "C01.vm.local0_slot");
    assert!(same(rig.stack_get(o + 1), Value::Integer(y)), "C01.vm.local1_slot");
    assert!(same(rig.stack_get(o + 2), Value::Integer(x)), "C01.vm.local0_read_back");
    if OFFSET > 0 {
        assert!(same(rig.stack_get(0), Value::Integer(f0)), "C01.vm.caller_slot0_untouched");
    }
    if OFFSET > 1 {
        assert!(same(rig.stack_get(1), Value::Integer(f1)), "C01.vm.caller_slot1_untouched");
    }
    std::mem::forget(rig);
    s.reached("c01.vm_locals");
}

/// overwrite an existing local, read the other
pub fn vm_local_overwrite<S: Src>(s: &mut S) {
    let mut rig = Rig::new(12, 4, 1 << 16);
    let (x, y, z) = (s.i64(), s.i64(), s.i64());
    rig.push(Value::Integer(x));
    rig.push(Value::Integer(y));
    rig.push(Value::Integer(z));
    let mut a = Asm::new();
    // locals 0,1 exist (x,y); top of stack z is written into local 0; then both are read
    a.set_local(0).read_local(0).read_local(1).exit();
    let (res, _) = rig.run(a);
    assert!(res.is_ok(), "C01.vm.locals_program_succeeds");
    assert!(rig.stack_len() == 4, "C01.vm.locals_height");
    assert!(same(rig.stack_get(0), Value::Integer(z)), "C01.vm.set_local_overwrites_slot");
    assert!(same(rig.stack_get(1), Value::Integer(y)), "C01.vm.other_local_untouched");
    assert!(same(rig.stack_get(2), Value::Integer(z)), "C01.vm.read_local0");
    assert!(same(rig.stack_get(3), Value::Integer(y)), "C01.vm.read_local1");
    std::mem::forget(rig);
    s.reached("c01.vm_local_overwrite");
}

/// globals: store, read back, read of a global that was never set
pub fn vm_globals<S: Src>(s: &mut S) {
    let mut rig = Rig::new(12, 4, 1 << 16);
    let (x, y) = (s.i64(), s.i64());
    rig.push(Value::Integer(x));
    rig.push(Value::Integer(y));
    let mut a = Asm::new();
    a.set_global(2).set_global(0).read_global(2).read_global(1).exit();
    let (res, _) = rig.run(a);
    assert!(res.is_ok(), "C01.vm.globals_program_succeeds");
    assert!(same(rig.global(2).unwrap_or(Value::Nil), Value::Integer(y)), "C01.vm.set_global_stores_top");
    assert!(same(rig.global(0).unwrap_or(Value::Nil), Value::Integer(x)), "C01.vm.set_global_second");
    assert!(same(rig.global(1).unwrap_or(Value::Integer(1)), Value::Nil), "C01.vm.unset_global_is_nil");
    assert!(rig.stack_len() == 2, "C01.vm.globals_height");
    assert!(same(rig.stack_get(0), Value::Integer(y)), "C01.vm.read_global_pushes_value");
    assert!(same(rig.stack_get(1), Value::Nil), "C01.vm.read_unset_global_pushes_nil");
    std::mem::forget(rig);
    s.reached("c01.vm_globals");
}

/// call with two arguments above a live caller local: the arguments are the callee's first
/// locals in push order, the caller's slot is undisturbed, the return value replaces the
/// arguments, the call depth returns to 1
pub fn vm_call_return<S: Src, const WHICH: u32>(s: &mut S) {
    let mut rig = Rig::new(12, 4, 1 << 16);
    let l = s.i64();
    let x = s.i64();
    let y = s.i64();
    rig.push(Value::Integer(l));
    rig.push(Value::Integer(x));
    rig.push(Value::Integer(y));
    let h = Handle::from_u32(7);
    let mut a = Asm::new();
    a.op(op::FUNCTION_POINTER).bytes(bytemuck::bytes_of(&h)).u32(2);
    a.op(op::CALL_FUNCTION);
    a.exit();
    let fpos = a.pos();
    a.read_local(WHICH).op(op::RETURN);
    rig.prog.labels.0.insert(h, Label::new(fpos as u32)).unwrap();
    let (res, _) = rig.run(a);
    assert!(res.is_ok(), "C01.vm.call_program_succeeds");
    let expect = if WHICH == 0 { x } else { y };
    assert!(rig.stack_len() == 2, "C01.vm.call_stack_height_restored");
    assert!(same(rig.stack_get(0), Value::Integer(l)), "C01.vm.caller_local_undisturbed");
    assert!(same(rig.stack_get(1), Value::Integer(expect)), "C01.vm.call_return_value_and_argument_binding");
    assert!(rig.vm.runtime_data.verif_call_depth() == 1, "C01.vm.call_depth_restored");
    std::mem::forget(rig);
    s.reached("c01.vm_call_return");
}

/// a function without an explicit return yields nil
pub fn vm_call_no_return_value<S: Src>(s: &mut S) {
    let mut rig = Rig::new(12, 4, 1 << 16);
    let x = s.i64();
    rig.push(Value::Integer(x));
    let h = Handle::from_u32(9);
    let mut a = Asm::new();
    a.op(op::FUNCTION_POINTER).bytes(bytemuck::bytes_of(&h)).u32(1);
    a.op(op::CALL_FUNCTION);
    a.exit();
    let fpos = a.pos();
    // what the compiler appends to every function: ScalarNil, Return
    a.op(op::SCALAR_NIL).op(op::RETURN);
    rig.prog.labels.0.insert(h, Label::new(fpos as u32)).unwrap();
    let (res, _) = rig.run(a);
    assert!(res.is_ok(), "C01.vm.call_program_succeeds");
    assert!(rig.stack_len() == 1, "C01.vm.stack_balanced_after_call");
    assert!(same(rig.stack_get(0), Value::Nil), "C01.vm.no_return_value_is_nil");
    std::mem::forget(rig);
    s.reached("c01.vm_call_no_return_value");
}

/// SwapLast / Pop / CopyLast / Not on symbolic integers
pub fn vm_stack_ops<S: Src>(s: &mut S) {
    let mut rig = Rig::new(12, 4, 1 << 16);
    let x = s.i64();
    let y = s.i64();
    rig.push(Value::Integer(x));
    rig.push(Value::Integer(y));
    let mut a = Asm::new();
    // x y -> y x -> y -> y y -> y !y
    a.op(op::SWAP_LAST).op(op::POP).op(op::COPY_LAST).op(op::NOT).exit();
    let (res, _) = rig.run(a);
    assert!(res.is_ok(), "C01.vm.stack_ops_program_succeeds");
    assert!(rig.stack_len() == 2, "C01.vm.stack_ops_height");
    assert!(same(rig.stack_get(0), Value::Integer(y)), "C01.vm.swap_pop_copy");
    assert!(same(rig.stack_get(1), Value::Integer((y == 0) as i64)), "C01.vm.not");
    std::mem::forget(rig);
    s.reached("c01.vm_stack_ops");
}

/// conditional jump with a concrete truth value; taken and fall-through paths push different
/// values (the one on the taken path is solver-chosen)
pub fn vm_cond_jump<S: Src, const OPSEL: u8, const TRUTHY: bool>(s: &mut S) {
    let mut rig = Rig::new(8, 4, 1 << 16);
    let payload = s.i64();
    // the condition itself is concrete (symbolic control flow does not finish)
    rig.push(Value::Integer(if TRUTHY { 3 } else { 0 }));
    let mut a = Asm::new();
    let jop = if OPSEL == 0 { op::GOTO_IF_TRUE } else { op::GOTO_IF_FALSE };
    a.op(jop);
    let patch = a.pos();
    a.i32(0);
    a.int(1).exit();
    let target = a.pos();
    a.int(payload).exit();
    let t = (target as i32).to_le_bytes();
    a.bc[patch] = t[0];
    a.bc[patch + 1] = t[1];
    a.bc[patch + 2] = t[2];
    a.bc[patch + 3] = t[3];
    let (res, _) = rig.run(a);
    assert!(res.is_ok(), "C01.vm.jump_program_succeeds");
    let taken = if OPSEL == 0 { TRUTHY } else { !TRUTHY };
    let e = if taken { payload } else { 1 };
    assert!(rig.stack_len() == 1, "C01.vm.jump_pops_condition");
    assert!(same(rig.stack_get(0), Value::Integer(e)), "C01.vm.conditional_jump_target");
    std::mem::forget(rig);
    s.reached("c01.vm_cond_jump");
}

/// unconditional jump over an instruction
pub fn vm_goto<S: Src>(s: &mut S) {
    let mut rig = Rig::new(8, 4, 1 << 16);
    let payload = s.i64();
    let mut a = Asm::new();
    a.op(op::GOTO);
    let patch = a.pos();
    a.i32(0);
    a.int(1).exit();
    let target = a.pos();
    a.int(payload).exit();
    let t = (target as i32).to_le_bytes();
    a.bc[patch] = t[0];
    a.bc[patch + 1] = t[1];
    a.bc[patch + 2] = t[2];
    a.bc[patch + 3] = t[3];
    let (res, _) = rig.run(a);
    assert!(res.is_ok(), "C01.vm.jump_program_succeeds");
    assert!(rig.stack_len() == 1 && same(rig.stack_get(0), Value::Integer(payload)), "C01.vm.goto_target");
    std::mem::forget(rig);
    s.reached("c01.vm_goto");
}

crate::harnesses! {
    c01_value_add_int_int / 3 => value_arith::<_, INT, INT, 0>;
    c01_value_sub_int_int / 3 => value_arith::<_, INT, INT, 1>;
    c01_value_mul_int_int / 3 => value_arith::<_, INT, INT, 2>;
    c01_value_add_int_nil / 3 => value_arith::<_, INT, NIL, 0>;
    c01_value_sub_nil_int / 3 => value_arith::<_, NIL, INT, 1>;
    c01_value_add_nil_nil / 3 => value_arith::<_, NIL, NIL, 0>;
    c01_value_add_int_real / 3 => value_arith::<_, INT, REAL, 0>;
    c01_value_sub_real_int / 3 => value_arith::<_, REAL, INT, 1>;
    c01_value_add_real_real / 3 => value_arith::<_, REAL, REAL, 0>;
    c01_value_add_real_nil / 3 => value_arith::<_, REAL, NIL, 0>;
    c01_value_div_int_int / 3 => value_arith::<_, INT, INT, 3>;
    #[kani::stub(alloc::fmt::format, crate::stub_format)]
    c01_vm_add / 14 => vm_binop_int::<_, 0>;
    #[kani::stub(alloc::fmt::format, crate::stub_format)]
    c01_vm_sub / 14 => vm_binop_int::<_, 1>;
    #[kani::stub(alloc::fmt::format, crate::stub_format)]
    c01_vm_mul / 14 => vm_binop_int::<_, 2>;
    #[kani::stub(alloc::fmt::format, crate::stub_format)]
    c01_vm_equals / 14 => vm_binop_int::<_, 3>;
    #[kani::stub(alloc::fmt::format, crate::stub_format)]
    c01_vm_not_equals / 14 => vm_binop_int::<_, 4>;
    #[kani::stub(alloc::fmt::format, crate::stub_format)]
    c01_vm_less / 14 => vm_binop_int::<_, 5>;
    #[kani::stub(alloc::fmt::format, crate::stub_format)]
    c01_vm_less_or_eq / 14 => vm_binop_int::<_, 6>;
    #[kani::stub(alloc::fmt::format, crate::stub_format)]
    c01_vm_and / 14 => vm_binop_int::<_, 7>;
    #[kani::stub(alloc::fmt::format, crate::stub_format)]
    c01_vm_or / 14 => vm_binop_int::<_, 8>;
    #[kani::stub(alloc::fmt::format, crate::stub_format)]
    c01_vm_xor / 14 => vm_binop_int::<_, 9>;
    #[kani::stub(alloc::fmt::format, crate::stub_format)]
    c01_vm_locals_off0 / 14 => vm_locals::<_, 0>;
    #[kani::stub(alloc::fmt::format, crate::stub_format)]
    c01_vm_locals_off2 / 14 => vm_locals::<_, 2>;
    #[kani::stub(alloc::fmt::format, crate::stub_format)]
    c01_vm_local_overwrite / 14 => vm_local_overwrite;
    #[kani::stub(alloc::fmt::format, crate::stub_format)]
    c01_vm_globals / 14 => vm_globals;
    #[kani::stub(alloc::fmt::format, crate::stub_format)]
    c01_vm_call_ret_arg0 / 14 => vm_call_return::<_, 0>;
    #[kani::stub(alloc::fmt::format, crate::stub_format)]
    c01_vm_call_ret_arg1 / 14 => vm_call_return::<_, 1>;
    #[kani::stub(alloc::fmt::format, crate::stub_format)]
    c01_vm_call_no_return_value / 14 => vm_call_no_return_value;
    #[kani::stub(alloc::fmt::format, crate::stub_format)]
    c01_vm_stack_ops / 14 => vm_stack_ops;
    #[kani::stub(alloc::fmt::format, crate::stub_format)]
    c01_vm_jump_if_true_taken / 14 => vm_cond_jump::<_, 0, true>;
    #[kani::stub(alloc::fmt::format, crate::stub_format)]
    c01_vm_jump_if_true_not_taken / 14 => vm_cond_jump::<_, 0, false>;
    #[kani::stub(alloc::fmt::format, crate::stub_format)]
    c01_vm_jump_if_false_taken / 14 => vm_cond_jump::<_, 1, false>;
    #[kani::stub(alloc::fmt::format, crate::stub_format)]
    c01_vm_jump_if_false_not_taken / 14 => vm_cond_jump::<_, 1, true>;
    #[kani::stub(alloc::fmt::format, crate::stub_format)]
    c01_vm_goto / 14 => vm_goto;
}
