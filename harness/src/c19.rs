//! C19 — Value equality, hashing and ordering are mutually coherent.
//!
//! One harness per concrete kind tuple (a symbolic kind does not finish, DESIGN §0); the payloads
//! are fully symbolic: every i64, every non-NaN f64, strings of length 0..=2 over symbolic ASCII
//! bytes allocated by the real runtime.
use crate::Src;
use cao_lang::collections::hash_map::verif_hash;
use cao_lang::prelude::Value;
use cao_lang::vm::runtime::RuntimeData;
use std::pin::Pin;

pub const NIL: u8 = 0;
pub const INT: u8 = 1;
pub const REAL: u8 = 2;
/// strings of concrete length 0, 1, 2 (a symbolic allocation size does not finish)
pub const STR0: u8 = 3;
pub const STR: u8 = 4;
pub const STR2: u8 = 5;

pub struct Heap(pub Option<Pin<Box<RuntimeData>>>);

impl Heap {
    pub fn new() -> Self {
        Heap(None)
    }
    fn rt(&mut self) -> &mut RuntimeData {
        if self.0.is_none() {
            self.0 = Some(RuntimeData::new(1 << 20, 4, 4).unwrap());
        }
        unsafe { Pin::get_unchecked_mut(self.0.as_mut().unwrap().as_mut()) }
    }
    /// string of the given (concrete) length 0..=2 and solver-chosen ASCII content
    pub fn sym_string<S: Src>(&mut self, s: &mut S, len: usize) -> (Value, usize, [u8; 2]) {
        let mut b = [0u8; 2];
        b[0] = s.u8();
        b[1] = s.u8();
        s.assume(b[0] < 0x80 && b[1] < 0x80);
        let st = unsafe { std::str::from_utf8_unchecked(&b[..len]) };
        let g = self.rt().init_string(st).unwrap();
        (Value::Object(g.into_inner()), len, b)
    }
}

/// abstract description of a value, used by the reference side of the laws
#[derive(Clone, Copy)]
pub struct Abs {
    pub kind: u8,
    pub i: i64,
    pub r: f64,
    pub len: usize,
    pub bytes: [u8; 2],
}

pub fn sym_value<S: Src>(kind: u8, heap: &mut Heap, s: &mut S) -> (Value, Abs) {
    let mut a = Abs {
        kind: kind.min(STR),
        i: 0,
        r: 0.0,
        len: 0,
        bytes: [0; 2],
    };
    let v = match kind {
        NIL => Value::Nil,
        INT => {
            a.i = s.i64();
            Value::Integer(a.i)
        }
        REAL => {
            a.r = s.f64();
            s.assume(!a.r.is_nan());
            Value::Real(a.r)
        }
        _ => {
            let (v, len, b) = heap.sym_string(s, (kind - STR0) as usize);
            a.kind = STR;
            a.len = len;
            a.bytes = b;
            v
        }
    };
    (v, a)
}

/// reference equality from the statement: same kind and same content
fn ref_eq(a: &Abs, b: &Abs) -> bool {
    if a.kind != b.kind {
        return false;
    }
    match a.kind {
        NIL => true,
        INT => a.i == b.i,
        REAL => a.r == b.r,
        _ => a.len == b.len && (a.len < 1 || a.bytes[0] == b.bytes[0]) && (a.len < 2 || a.bytes[1] == b.bytes[1]),
    }
}

fn is_num(a: &Abs) -> bool {
    a.kind == INT || a.kind == REAL
}

const TWO53: i64 = 1 << 53;

/// reference "a < b" where the statement defines it: at least one side is a number (nil counts
/// as 0, a string as its length; reals make the comparison a real comparison), or two strings
/// (by length). None where the statement is silent.
fn ref_less(a: &Abs, b: &Abs) -> Option<bool> {
    if is_num(a) || is_num(b) {
        if a.kind == REAL || b.kind == REAL {
            let fa = match a.kind {
                REAL => a.r,
                INT => a.i as f64,
                NIL => 0.0,
                _ => a.len as f64,
            };
            let fb = match b.kind {
                REAL => b.r,
                INT => b.i as f64,
                NIL => 0.0,
                _ => b.len as f64,
            };
            Some(fa < fb)
        } else {
            let ia = match a.kind {
                INT => a.i,
                NIL => 0,
                _ => a.len as i64,
            };
            let ib = match b.kind {
                INT => b.i,
                NIL => 0,
                _ => b.len as i64,
            };
            Some(ia < ib)
        }
    } else if a.kind == STR && b.kind == STR {
        if ref_eq(a, b) {
            Some(false)
        } else if a.len != b.len {
            Some(a.len < b.len)
        } else {
            None
        }
    } else {
        None
    }
}

pub fn pair_laws<S: Src, const KA: u8, const KB: u8>(s: &mut S) {
    let mut heap = Heap::new();
    let (a, aa) = sym_value(KA, &mut heap, s);
    let (b, ab) = sym_value(KB, &mut heap, s);
    // integers beyond 2^53 are not exactly representable when mixed with reals: outside the claim
    if (KA == INT && KB == REAL) || (KA == REAL && KB == INT) {
        s.assume(aa.i >= -TWO53 && aa.i <= TWO53 && ab.i >= -TWO53 && ab.i <= TWO53);
    }
    let eq_ab = a == b;
    let eq_ba = b == a;
    assert!(eq_ab == eq_ba, "C19.eq.symmetric");
    assert!(eq_ab == ref_eq(&aa, &ab), "C19.eq.same_kind_and_content");
    assert!((a != b) == !eq_ab, "C19.ne.is_not_eq");
    assert!(a == a && b == b, "C19.eq.reflexive");
    if eq_ab {
        let signed_zero = aa.kind == REAL && aa.r == 0.0 && aa.r.to_bits() != ab.r.to_bits();
        if !signed_zero {
            assert!(verif_hash(&a) == verif_hash(&b), "C19.hash.equal_values_hash_equally");
        }
        assert!(!(a < b) && !(a > b), "C19.ord.equal_values_neither_less_nor_greater");
        assert!(!(b < a) && !(b > a), "C19.ord.equal_values_neither_less_nor_greater_rev");
    }
    let lt = a < b;
    let gt = a > b;
    assert!(!(lt && (b < a)), "C19.ord.asymmetric");
    assert!(!(lt && gt), "C19.ord.not_both_less_and_greater");
    assert!(gt == (b < a), "C19.ord.greater_is_flipped_less");
    if let Some(r) = ref_less(&aa, &ab) {
        assert!(lt == r, "C19.ord.numeric_order");
    }
    if lt {
        assert!(a <= b && !(a >= b), "C19.ord.le_ge_consistent_with_lt");
    }
    // truthiness and hashing terminate without error
    let ta = a.as_bool();
    let expect_ta = match aa.kind {
        NIL => false,
        INT => aa.i != 0,
        REAL => aa.r != 0.0,
        _ => aa.len != 0,
    };
    assert!(ta == expect_ta, "C19.as_bool");
    let _ = verif_hash(&a);
    let _ = verif_hash(&b);
    std::mem::forget(heap);
    s.reached("c19.pair_laws");
}

pub fn triple_laws<S: Src, const KA: u8, const KB: u8, const KC: u8>(s: &mut S) {
    let mut heap = Heap::new();
    let (a, _) = sym_value(KA, &mut heap, s);
    let (b, _) = sym_value(KB, &mut heap, s);
    let (c, _) = sym_value(KC, &mut heap, s);
    if a == b && b == c {
        assert!(a == c, "C19.eq.transitive");
        assert!(verif_hash(&a) == verif_hash(&c) || KA == REAL, "C19.hash.transitive");
    }
    std::mem::forget(heap);
    s.reached("c19.triple_laws");
}

/// same-kind numeric order is transitive and total where the statement defines it
pub fn order_transitive<S: Src, const KA: u8, const KB: u8, const KC: u8>(s: &mut S) {
    let mut heap = Heap::new();
    let (a, aa) = sym_value(KA, &mut heap, s);
    let (b, ab) = sym_value(KB, &mut heap, s);
    let (c, ac) = sym_value(KC, &mut heap, s);
    for x in [&aa, &ab, &ac] {
        s.assume(x.i >= -TWO53 && x.i <= TWO53);
    }
    if a < b && b < c {
        assert!(a < c, "C19.ord.transitive_on_numbers");
    }
    std::mem::forget(heap);
    s.reached("c19.order_transitive");
}

crate::harnesses! {
    c19_pair_nil_nil / 10 => pair_laws::<_, NIL, NIL>;
    c19_pair_nil_int / 10 => pair_laws::<_, NIL, INT>;
    c19_pair_nil_real / 10 => pair_laws::<_, NIL, REAL>;
    c19_pair_int_nil / 10 => pair_laws::<_, INT, NIL>;
    c19_pair_int_int / 10 => pair_laws::<_, INT, INT>;
    c19_pair_int_real / 10 => pair_laws::<_, INT, REAL>;
    c19_pair_real_nil / 10 => pair_laws::<_, REAL, NIL>;
    c19_pair_real_int / 10 => pair_laws::<_, REAL, INT>;
    c19_pair_real_real / 10 => pair_laws::<_, REAL, REAL>;
    c19_pair_str1_str1 / 10 => pair_laws::<_, STR, STR>;
    c19_pair_str2_str2 / 10 => pair_laws::<_, STR2, STR2>;
    c19_pair_str1_str2 / 10 => pair_laws::<_, STR, STR2>;
    c19_pair_str0_str1 / 10 => pair_laws::<_, STR0, STR>;
    c19_pair_str0_str0 / 10 => pair_laws::<_, STR0, STR0>;
    c19_pair_str2_int / 10 => pair_laws::<_, STR2, INT>;
    c19_pair_int_str1 / 10 => pair_laws::<_, INT, STR>;
    c19_pair_str1_real / 10 => pair_laws::<_, STR, REAL>;
    c19_pair_real_str2 / 10 => pair_laws::<_, REAL, STR2>;
    c19_pair_str1_nil / 10 => pair_laws::<_, STR, NIL>;
    c19_pair_nil_str0 / 10 => pair_laws::<_, NIL, STR0>;
    c19_triple_int / 10 => triple_laws::<_, INT, INT, INT>;
    c19_triple_real / 10 => triple_laws::<_, REAL, REAL, REAL>;
    c19_triple_int_real_int / 10 => triple_laws::<_, INT, REAL, INT>;
    c19_triple_nil_int_real / 10 => triple_laws::<_, NIL, INT, REAL>;
    c19_triple_str1 / 10 => triple_laws::<_, STR, STR, STR>;
    c19_order_trans_int / 10 => order_transitive::<_, INT, INT, INT>;
    c19_order_trans_real / 10 => order_transitive::<_, REAL, REAL, REAL>;
    c19_order_trans_int_real_int / 10 => order_transitive::<_, INT, REAL, INT>;
    c19_order_trans_real_int_real / 10 => order_transitive::<_, REAL, INT, REAL>;
    c19_order_trans_nil_int_real / 10 => order_transitive::<_, NIL, INT, REAL>;
}
