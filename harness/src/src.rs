//! Source of nondeterministic values: `kani::any()` under Kani, recorded bytes natively.

pub trait Src {
    fn u8(&mut self) -> u8;
    fn u16(&mut self) -> u16;
    fn u32(&mut self) -> u32;
    fn u64(&mut self) -> u64;
    fn i64(&mut self) -> i64 {
        self.u64() as i64
    }
    fn usize(&mut self) -> usize {
        self.u64() as usize
    }
    fn bool(&mut self) -> bool {
        self.u8() & 1 == 1
    }
    fn f64(&mut self) -> f64 {
        f64::from_bits(self.u64())
    }
    /// value in 0..n (n >= 1)
    fn below(&mut self, n: u8) -> u8 {
        let v = self.u8();
        self.assume(v < n);
        v
    }
    fn assume(&mut self, c: bool);
    /// vacuity witness: must be reachable
    fn reached(&mut self, label: &'static str);
}

#[cfg(kani)]
pub struct KaniSrc;

#[cfg(kani)]
impl Src for KaniSrc {
    fn u8(&mut self) -> u8 {
        kani::any()
    }
    fn u16(&mut self) -> u16 {
        kani::any()
    }
    fn u32(&mut self) -> u32 {
        kani::any()
    }
    fn u64(&mut self) -> u64 {
        kani::any()
    }
    fn assume(&mut self, c: bool) {
        kani::assume(c)
    }
    fn reached(&mut self, _label: &'static str) {
        kani::cover!(true, "VACUITY-WITNESS");
    }
}

/// Native replay source: values in the order Kani's concrete playback printed them.
pub struct BytesSrc {
    pub vals: Vec<Vec<u8>>,
    pub pos: usize,
    pub exhausted: bool,
}

impl BytesSrc {
    pub fn new(vals: Vec<Vec<u8>>) -> Self {
        Self {
            vals,
            pos: 0,
            exhausted: false,
        }
    }
    fn next(&mut self, n: usize) -> u64 {
        let mut out = 0u64;
        if self.pos < self.vals.len() {
            let v = &self.vals[self.pos];
            if v.len() != n {
                eprintln!(
                    "REPLAY-MISMATCH: value {} has {} bytes, harness asked for {}",
                    self.pos,
                    v.len(),
                    n
                );
                std::process::exit(3);
            }
            for (i, b) in v.iter().enumerate() {
                out |= (*b as u64) << (8 * i);
            }
        } else {
            self.exhausted = true;
        }
        self.pos += 1;
        out
    }
}

impl Src for BytesSrc {
    fn u8(&mut self) -> u8 {
        self.next(1) as u8
    }
    fn u16(&mut self) -> u16 {
        self.next(2) as u16
    }
    fn u32(&mut self) -> u32 {
        self.next(4) as u32
    }
    fn u64(&mut self) -> u64 {
        self.next(8)
    }
    fn assume(&mut self, c: bool) {
        if !c {
            eprintln!("REPLAY-MISMATCH: assumption violated by the recorded values");
            std::process::exit(3);
        }
    }
    fn reached(&mut self, label: &'static str) {
        println!("REACHED {label}");
    }
}

/// Declares a harness: a Kani proof with the given global unwind, and a registry entry for
/// native replay.
#[macro_export]
macro_rules! harnesses {
    ($( $(#[$m:meta])* $name:ident / $unwind:literal => $body:expr ;)*) => {
        $(
            #[cfg(kani)]
            #[kani::proof]
            #[kani::unwind($unwind)]
            $(#[$m])*
            pub fn $name() {
                let mut s = $crate::KaniSrc;
                let f: fn(&mut $crate::KaniSrc) = $body;
                f(&mut s);
            }
        )*
        pub fn register(v: &mut Vec<(&'static str, fn(&mut $crate::BytesSrc))>) {
            $( v.push((stringify!($name), $body)); )*
        }
    };
}
