//! C15 — error locations identify the failing card and its call chain (VM half, step level).
//!
//! A hand-assembled program `[filler][failing instruction + operands][Exit]` with a trace map
//! whose entries carry distinct card indices; the failing instruction is chosen per opcode that
//! can fail. trace[0] must be the entry keyed by the failing instruction's first byte; with a
//! call frame above it, trace[1] must be the entry keyed by that frame's call-site address.
use crate::vmh::*;
use crate::Src;
use cao_lang::prelude::*;

fn tr(card: usize) -> Trace {
    Trace {
        namespace: Default::default(),
        index: CardIndex::new(0, card),
    }
}

fn card_of(t: &Trace) -> u32 {
    t.index.card_index.indices.first().copied().unwrap_or(999)
}

/// WHICH selects the failing instruction; DEPTH = number of extra call frames (0 or 1)
pub fn failing_instruction<S: Src, const WHICH: u8, const DEPTH: u8>(s: &mut S) {
    let mut rig = Rig::new_with_trace(if WHICH == 4 { 3 } else { 8 }, 4, 1 << 16);
    let x = s.i64();
    let mut a = Asm::new();
    // filler instruction at address 0 (card 10)
    a.op(op::SCALAR_NIL);
    let fail_at = a.pos();
    let expect_kind = match WHICH {
        0 => {
            // missing native: 4 operand bytes
            let h = Handle::from_bytes(b"nope");
            a.op(op::CALL_NATIVE).bytes(bytemuck::bytes_of(&h));
            E_PROC_NOT_FOUND
        }
        1 => {
            a.op(op::GET_PROPERTY);
            E_INVALID_ARG
        }
        2 => {
            a.op(op::CALL_FUNCTION);
            E_INVALID_ARG
        }
        3 => {
            a.op(op::READ_UPVALUE).u32(0);
            E_NOT_CLOSURE
        }
        _ => {
            // value stack exhaustion on a literal with 8 operand bytes (stack capacity 3)
            a.int(x);
            E_STACKOVERFLOW
        }
    };
    let after = a.pos();
    a.exit();
    // trace entries: filler -> card 10, failing instruction -> card 11, Exit -> card 12,
    // call site of the extra frame (address 40) -> card 20
    rig.prog.trace.insert(0u32, tr(10)).unwrap();
    rig.prog.trace.insert(fail_at as u32, tr(11)).unwrap();
    rig.prog.trace.insert(after as u32, tr(12)).unwrap();
    rig.prog.trace.insert(40u32, tr(20)).unwrap();
    rig.push(Value::Integer(x));
    if WHICH == 4 {
        // [x, nil] fills a capacity-3 stack
    }
    if DEPTH == 1 {
        let ok = rig.vm.runtime_data.verif_push_frame(40, 0, 0, None);
        assert!(ok, "harness.frame");
    }
    let (res, _) = rig.run(a);
    match &res {
        Ok(()) => assert!(false, "C15.step.instruction_fails"),
        Err(e) => {
            assert!(kind_of(&e.payload) == expect_kind, "C15.step.error_kind");
            assert!(e.trace.len() >= 1, "C15.trace.first_entry_present");
            if e.trace.len() >= 1 {
                assert!(card_of(&e.trace[0]) == 11, "C15.trace.first_entry_is_the_failing_card");
            }
            if DEPTH == 1 {
                assert!(e.trace.len() >= 2, "C15.trace.call_chain_present");
                if e.trace.len() >= 2 {
                    assert!(card_of(&e.trace[1]) == 20, "C15.trace.second_entry_is_the_innermost_call_card");
                }
            }
        }
    }
    std::mem::forget(res);
    std::mem::forget(rig);
    s.reached("c15.failing_instruction");
}

/// The same failing programs with the trace construction switched off (it is what makes the
/// harnesses above too expensive): the address the interpreter attributes the error to - the key
/// it looks the first trace entry up with - must be the first byte of the failing instruction,
/// and the call frame must record the address of its call instruction.
pub fn attributed_address<S: Src, const WHICH: u8>(s: &mut S) {
    let mut rig = Rig::new(if WHICH == 4 { 3 } else { 8 }, 4, 1 << 16);
    let x = s.i64();
    let mut a = Asm::new();
    a.op(op::SCALAR_NIL);
    let fail_at = a.pos();
    let expect_kind = match WHICH {
        0 => {
            let h = Handle::from_bytes(b"nope");
            a.op(op::CALL_NATIVE).bytes(bytemuck::bytes_of(&h));
            E_PROC_NOT_FOUND
        }
        1 => {
            a.op(op::GET_PROPERTY);
            E_INVALID_ARG
        }
        2 => {
            a.op(op::CALL_FUNCTION);
            E_INVALID_ARG
        }
        3 => {
            a.op(op::READ_UPVALUE).u32(0);
            E_NOT_CLOSURE
        }
        4 => {
            a.int(x);
            E_STACKOVERFLOW
        }
        5 => {
            a.op(op::STRING_LITERAL).u32(99);
            E_INVALID_ARG
        }
        _ => {
            a.read_global(7);
            E_VAR_NOT_FOUND
        }
    };
    a.exit();
    rig.push(Value::Integer(x));
    let (res, _) = rig.run(a);
    match &res {
        Ok(()) => assert!(false, "C15.step.instruction_fails"),
        Err(e) => assert!(kind_of(&e.payload) == expect_kind, "C15.step.error_kind"),
    }
    assert!(
        cao_lang::verif_hooks::last_error_addr() == fail_at as u64,
        "C15.trace.error_is_attributed_to_the_failing_instructions_own_address"
    );
    std::mem::forget(res);
    std::mem::forget(rig);
    s.reached("c15.attributed_address");
}

/// Timeout is attributed to the instruction that was about to execute
pub fn timeout_location<S: Src>(s: &mut S) {
    let mut rig = Rig::new_with_trace(8, 4, 1 << 16);
    let _ = s.u8();
    let mut a = Asm::new();
    a.op(op::SCALAR_NIL);
    let second = a.pos();
    a.op(op::POP);
    a.exit();
    rig.prog.trace.insert(0u32, tr(10)).unwrap();
    rig.prog.trace.insert(second as u32, tr(11)).unwrap();
    rig.prog.trace.insert(second as u32 + 1, tr(12)).unwrap();
    rig.vm.max_instr = 2; // one instruction executes, the second one times out
    let (res, _) = rig.run(a);
    match &res {
        Ok(()) => assert!(false, "C15.step.times_out"),
        Err(e) => {
            assert!(kind_of(&e.payload) == E_TIMEOUT, "C15.step.error_kind");
            assert!(e.trace.len() >= 1 && card_of(&e.trace[0]) == 11, "C15.trace.timeout_names_the_pending_card");
        }
    }
    std::mem::forget(res);
    std::mem::forget(rig);
    s.reached("c15.timeout_location");
}

pub fn timeout_address<S: Src>(s: &mut S) {
    let mut rig = Rig::new(8, 4, 1 << 16);
    let _ = s.u8();
    let mut a = Asm::new();
    a.op(op::SCALAR_NIL);
    let second = a.pos();
    a.op(op::POP);
    a.exit();
    rig.vm.max_instr = 2;
    let (res, _) = rig.run(a);
    assert!(matches!(&res, Err(e) if kind_of(&e.payload) == E_TIMEOUT), "C15.step.times_out");
    assert!(
        cao_lang::verif_hooks::last_error_addr() == second as u64,
        "C15.trace.timeout_is_attributed_to_the_pending_instruction"
    );
    std::mem::forget(res);
    std::mem::forget(rig);
    s.reached("c15.timeout_address");
}

/// The call chain of a runtime error is visited from the innermost frame outwards. Three call
/// frames (the base frame at call site 0 and two more with solver-chosen call-site addresses),
/// a missing native fails; the trace is really built (against an empty trace map, so no entry
/// is cloned) and the hook in the frame loop records the call-site address of every frame in
/// the order the interpreter visits them.
pub fn call_chain_order<S: Src>(s: &mut S) {
    let mut rig = Rig::new_with_trace(8, 4, 1 << 16);
    // (the default program is leaked, not dropped: its teardown loops are not the subject)
    std::mem::forget(std::mem::replace(&mut rig.prog, small_program()));
    let a1 = s.u32();
    let a2 = s.u32();
    let mut a = Asm::new();
    a.op(op::SCALAR_NIL);
    let fail_at = a.pos();
    let h = Handle::from_bytes(b"nope");
    a.op(op::CALL_NATIVE).bytes(bytemuck::bytes_of(&h));
    a.exit();
    assert!(rig.vm.runtime_data.verif_push_frame(a1, 0, 0, None), "harness.frame");
    assert!(rig.vm.runtime_data.verif_push_frame(a2, 0, 0, None), "harness.frame");
    cao_lang::verif_hooks::reset_error_chain();
    let (res, _) = rig.run(a);
    match &res {
        Ok(()) => assert!(false, "C15.step.instruction_fails"),
        Err(e) => assert!(kind_of(&e.payload) == E_PROC_NOT_FOUND, "C15.step.error_kind"),
    }
    assert!(cao_lang::verif_hooks::last_error_addr() == fail_at as u64, "C15.trace.error_is_attributed_to_the_failing_instructions_own_address");
    let (n, chain) = cao_lang::verif_hooks::error_chain();
    assert!(n == 3, "C15.trace.every_active_frame_is_visited_once");
    assert!(chain[0] == a2 as u64, "C15.trace.call_chain_starts_with_the_innermost_call");
    assert!(chain[1] == a1 as u64, "C15.trace.call_chain_goes_outwards");
    assert!(chain[2] == 0, "C15.trace.call_chain_ends_with_the_outermost_frame");
    std::mem::forget(res);
    std::mem::forget(rig);
    s.reached("c15.call_chain_order");
}

crate::harnesses! {
    #[kani::stub(alloc::fmt::format, crate::stub_format)]
    c15_call_chain_order / 18 => call_chain_order;
    #[kani::stub(alloc::fmt::format, crate::stub_format)]
    c15_addr_missing_native / 18 => attributed_address::<_, 0>;
    #[kani::stub(alloc::fmt::format, crate::stub_format)]
    c15_addr_get_property / 18 => attributed_address::<_, 1>;
    #[kani::stub(alloc::fmt::format, crate::stub_format)]
    c15_addr_call_non_function / 18 => attributed_address::<_, 2>;
    #[kani::stub(alloc::fmt::format, crate::stub_format)]
    c15_addr_read_upvalue / 18 => attributed_address::<_, 3>;
    #[kani::stub(alloc::fmt::format, crate::stub_format)]
    c15_addr_stackoverflow / 18 => attributed_address::<_, 4>;
    #[kani::stub(alloc::fmt::format, crate::stub_format)]
    c15_addr_unknown_global / 18 => attributed_address::<_, 6>;
    #[kani::stub(alloc::fmt::format, crate::stub_format)]
    c15_addr_timeout / 18 => timeout_address;
    #[kani::stub(alloc::fmt::format, crate::stub_format)]
    c15_missing_native_depth0 / 18 => failing_instruction::<_, 0, 0>;
    #[kani::stub(alloc::fmt::format, crate::stub_format)]
    c15_missing_native_depth1 / 18 => failing_instruction::<_, 0, 1>;
    #[kani::stub(alloc::fmt::format, crate::stub_format)]
    c15_get_property_depth0 / 18 => failing_instruction::<_, 1, 0>;
    #[kani::stub(alloc::fmt::format, crate::stub_format)]
    c15_call_non_function_depth1 / 18 => failing_instruction::<_, 2, 1>;
    #[kani::stub(alloc::fmt::format, crate::stub_format)]
    c15_read_upvalue_depth0 / 18 => failing_instruction::<_, 3, 0>;
    #[kani::stub(alloc::fmt::format, crate::stub_format)]
    c15_stackoverflow_depth0 / 18 => failing_instruction::<_, 4, 0>;
    #[kani::stub(alloc::fmt::format, crate::stub_format)]
    c15_timeout / 18 => timeout_location;
}
