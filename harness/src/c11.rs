//! C11 — serialization round-trips (the part that is this repository's own code and within
//! reach: the hand-written map (de)serializers of `HandleTable` and `CaoHashMap`).
//!
//! The wire formats (JSON/YAML/CBOR/bincode) are third-party parsers and are outside. Here the
//! serde data model itself is the medium: a `Serializer` that collects a map's entries into a
//! fixed array and a `MapAccess` that replays solver-chosen entries with a solver-chosen
//! `size_hint` (exact, absent, under- or over-stated).
use crate::c13::hnd;
use crate::Src;
use cao_lang::collections::handle_table::HandleTable;
use cao_lang::collections::hash_map::CaoHashMap;
use serde::de::{DeserializeSeed, Deserializer, MapAccess, Visitor};
use serde::ser::{Impossible, SerializeMap, Serializer};
use serde::{Deserialize, Serialize};

const MAXN: usize = 4;

#[derive(Debug)]
pub struct E;
impl std::fmt::Display for E {
    fn fmt(&self, _f: &mut std::fmt::Formatter<'_>) -> std::fmt::Result {
        Ok(())
    }
}
impl std::error::Error for E {}
impl serde::de::Error for E {
    fn custom<T: std::fmt::Display>(_m: T) -> Self {
        E
    }
}
impl serde::ser::Error for E {
    fn custom<T: std::fmt::Display>(_m: T) -> Self {
        E
    }
}

// ------------------------------------------------------------------ deserializer side

/// a single unsigned number (keys: u8 / newtype Handle(u32); values: u8)
struct NumDe(u64);

impl<'de> Deserializer<'de> for NumDe {
    type Error = E;
    fn deserialize_any<V: Visitor<'de>>(self, v: V) -> Result<V::Value, E> {
        v.visit_u64(self.0)
    }
    fn deserialize_newtype_struct<V: Visitor<'de>>(self, _n: &'static str, v: V) -> Result<V::Value, E> {
        v.visit_newtype_struct(self)
    }
    serde::forward_to_deserialize_any! {
        bool i8 i16 i32 i64 i128 u8 u16 u32 u64 u128 f32 f64 char str string bytes byte_buf option unit
        unit_struct seq tuple tuple_struct map struct enum identifier ignored_any
    }
}

pub struct Replay {
    pub keys: [u64; MAXN],
    pub vals: [u64; MAXN],
    pub n: usize,
    pub pos: usize,
    pub hint: Option<usize>,
}

impl<'de> MapAccess<'de> for Replay {
    type Error = E;
    fn next_key_seed<K: DeserializeSeed<'de>>(&mut self, seed: K) -> Result<Option<K::Value>, E> {
        if self.pos >= self.n {
            return Ok(None);
        }
        seed.deserialize(NumDe(self.keys[self.pos])).map(Some)
    }
    fn next_value_seed<V: DeserializeSeed<'de>>(&mut self, seed: V) -> Result<V::Value, E> {
        let v = self.vals[self.pos];
        self.pos += 1;
        seed.deserialize(NumDe(v))
    }
    fn size_hint(&self) -> Option<usize> {
        self.hint
    }
}

struct MapDe(Replay);

impl<'de> Deserializer<'de> for MapDe {
    type Error = E;
    fn deserialize_any<V: Visitor<'de>>(self, v: V) -> Result<V::Value, E> {
        v.visit_map(self.0)
    }
    serde::forward_to_deserialize_any! {
        bool i8 i16 i32 i64 i128 u8 u16 u32 u64 u128 f32 f64 char str string bytes byte_buf option unit
        unit_struct newtype_struct seq tuple tuple_struct map struct enum identifier ignored_any
    }
}

// ------------------------------------------------------------------ serializer side

/// captures one unsigned number
struct NumSer;
impl Serializer for NumSer {
    type Ok = u64;
    type Error = E;
    type SerializeSeq = Impossible<u64, E>;
    type SerializeTuple = Impossible<u64, E>;
    type SerializeTupleStruct = Impossible<u64, E>;
    type SerializeTupleVariant = Impossible<u64, E>;
    type SerializeMap = Impossible<u64, E>;
    type SerializeStruct = Impossible<u64, E>;
    type SerializeStructVariant = Impossible<u64, E>;
    fn serialize_u8(self, v: u8) -> Result<u64, E> {
        Ok(v as u64)
    }
    fn serialize_u32(self, v: u32) -> Result<u64, E> {
        Ok(v as u64)
    }
    fn serialize_u64(self, v: u64) -> Result<u64, E> {
        Ok(v)
    }
    fn serialize_newtype_struct<T: ?Sized + Serialize>(self, _n: &'static str, v: &T) -> Result<u64, E> {
        v.serialize(NumSer)
    }
    fn serialize_bool(self, _v: bool) -> Result<u64, E> { Err(E) }
    fn serialize_i8(self, _v: i8) -> Result<u64, E> { Err(E) }
    fn serialize_i16(self, _v: i16) -> Result<u64, E> { Err(E) }
    fn serialize_i32(self, _v: i32) -> Result<u64, E> { Err(E) }
    fn serialize_i64(self, _v: i64) -> Result<u64, E> { Err(E) }
    fn serialize_u16(self, _v: u16) -> Result<u64, E> { Err(E) }
    fn serialize_f32(self, _v: f32) -> Result<u64, E> { Err(E) }
    fn serialize_f64(self, _v: f64) -> Result<u64, E> { Err(E) }
    fn serialize_char(self, _v: char) -> Result<u64, E> { Err(E) }
    fn serialize_str(self, _v: &str) -> Result<u64, E> { Err(E) }
    fn serialize_bytes(self, _v: &[u8]) -> Result<u64, E> { Err(E) }
    fn serialize_none(self) -> Result<u64, E> { Err(E) }
    fn serialize_some<T: ?Sized + Serialize>(self, _v: &T) -> Result<u64, E> { Err(E) }
    fn serialize_unit(self) -> Result<u64, E> { Err(E) }
    fn serialize_unit_struct(self, _n: &'static str) -> Result<u64, E> { Err(E) }
    fn serialize_unit_variant(self, _n: &'static str, _i: u32, _v: &'static str) -> Result<u64, E> { Err(E) }
    fn serialize_newtype_variant<T: ?Sized + Serialize>(self, _n: &'static str, _i: u32, _v: &'static str, _t: &T) -> Result<u64, E> { Err(E) }
    fn serialize_seq(self, _l: Option<usize>) -> Result<Self::SerializeSeq, E> { Err(E) }
    fn serialize_tuple(self, _l: usize) -> Result<Self::SerializeTuple, E> { Err(E) }
    fn serialize_tuple_struct(self, _n: &'static str, _l: usize) -> Result<Self::SerializeTupleStruct, E> { Err(E) }
    fn serialize_tuple_variant(self, _n: &'static str, _i: u32, _v: &'static str, _l: usize) -> Result<Self::SerializeTupleVariant, E> { Err(E) }
    fn serialize_map(self, _l: Option<usize>) -> Result<Self::SerializeMap, E> { Err(E) }
    fn serialize_struct(self, _n: &'static str, _l: usize) -> Result<Self::SerializeStruct, E> { Err(E) }
    fn serialize_struct_variant(self, _n: &'static str, _i: u32, _v: &'static str, _l: usize) -> Result<Self::SerializeStructVariant, E> { Err(E) }
}

pub struct Collected {
    pub keys: [u64; MAXN],
    pub vals: [u64; MAXN],
    pub n: usize,
    pub declared: Option<usize>,
}

pub struct CollectMap(Collected);
impl SerializeMap for CollectMap {
    type Ok = Collected;
    type Error = E;
    fn serialize_key<T: ?Sized + Serialize>(&mut self, k: &T) -> Result<(), E> {
        if self.0.n >= MAXN {
            return Err(E);
        }
        self.0.keys[self.0.n] = k.serialize(NumSer)?;
        Ok(())
    }
    fn serialize_value<T: ?Sized + Serialize>(&mut self, v: &T) -> Result<(), E> {
        self.0.vals[self.0.n] = v.serialize(NumSer)?;
        self.0.n += 1;
        Ok(())
    }
    fn end(self) -> Result<Collected, E> {
        Ok(self.0)
    }
}

struct MapSer;
impl Serializer for MapSer {
    type Ok = Collected;
    type Error = E;
    type SerializeSeq = Impossible<Collected, E>;
    type SerializeTuple = Impossible<Collected, E>;
    type SerializeTupleStruct = Impossible<Collected, E>;
    type SerializeTupleVariant = Impossible<Collected, E>;
    type SerializeMap = CollectMap;
    type SerializeStruct = Impossible<Collected, E>;
    type SerializeStructVariant = Impossible<Collected, E>;
    fn serialize_map(self, l: Option<usize>) -> Result<CollectMap, E> {
        Ok(CollectMap(Collected {
            keys: [0; MAXN],
            vals: [0; MAXN],
            n: 0,
            declared: l,
        }))
    }
    fn serialize_bool(self, _v: bool) -> Result<Collected, E> { Err(E) }
    fn serialize_i8(self, _v: i8) -> Result<Collected, E> { Err(E) }
    fn serialize_i16(self, _v: i16) -> Result<Collected, E> { Err(E) }
    fn serialize_i32(self, _v: i32) -> Result<Collected, E> { Err(E) }
    fn serialize_i64(self, _v: i64) -> Result<Collected, E> { Err(E) }
    fn serialize_u8(self, _v: u8) -> Result<Collected, E> { Err(E) }
    fn serialize_u16(self, _v: u16) -> Result<Collected, E> { Err(E) }
    fn serialize_u32(self, _v: u32) -> Result<Collected, E> { Err(E) }
    fn serialize_u64(self, _v: u64) -> Result<Collected, E> { Err(E) }
    fn serialize_f32(self, _v: f32) -> Result<Collected, E> { Err(E) }
    fn serialize_f64(self, _v: f64) -> Result<Collected, E> { Err(E) }
    fn serialize_char(self, _v: char) -> Result<Collected, E> { Err(E) }
    fn serialize_str(self, _v: &str) -> Result<Collected, E> { Err(E) }
    fn serialize_bytes(self, _v: &[u8]) -> Result<Collected, E> { Err(E) }
    fn serialize_none(self) -> Result<Collected, E> { Err(E) }
    fn serialize_some<T: ?Sized + Serialize>(self, _v: &T) -> Result<Collected, E> { Err(E) }
    fn serialize_unit(self) -> Result<Collected, E> { Err(E) }
    fn serialize_unit_struct(self, _n: &'static str) -> Result<Collected, E> { Err(E) }
    fn serialize_unit_variant(self, _n: &'static str, _i: u32, _v: &'static str) -> Result<Collected, E> { Err(E) }
    fn serialize_newtype_struct<T: ?Sized + Serialize>(self, _n: &'static str, _v: &T) -> Result<Collected, E> { Err(E) }
    fn serialize_newtype_variant<T: ?Sized + Serialize>(self, _n: &'static str, _i: u32, _v: &'static str, _t: &T) -> Result<Collected, E> { Err(E) }
    fn serialize_seq(self, _l: Option<usize>) -> Result<Self::SerializeSeq, E> { Err(E) }
    fn serialize_tuple(self, _l: usize) -> Result<Self::SerializeTuple, E> { Err(E) }
    fn serialize_tuple_struct(self, _n: &'static str, _l: usize) -> Result<Self::SerializeTupleStruct, E> { Err(E) }
    fn serialize_tuple_variant(self, _n: &'static str, _i: u32, _v: &'static str, _l: usize) -> Result<Self::SerializeTupleVariant, E> { Err(E) }
    fn serialize_struct(self, _n: &'static str, _l: usize) -> Result<Self::SerializeStruct, E> { Err(E) }
    fn serialize_struct_variant(self, _n: &'static str, _i: u32, _v: &'static str, _l: usize) -> Result<Self::SerializeStructVariant, E> { Err(E) }
}

// ------------------------------------------------------------------ harnesses

/// HINT: 0 = none, 1 = exact, 2 = zero (under-stated), 3 = 8 (over-stated)
fn hint_of(h: u8, n: usize) -> Option<usize> {
    match h {
        0 => None,
        1 => Some(n),
        2 => Some(0),
        _ => Some(8),
    }
}

/// HandleTable: deserialize N solver-chosen (handle, value) entries, then serialize again
pub fn handle_table_roundtrip<S: Src, const N: usize, const HINT: u8>(s: &mut S) {
    let mut keys = [0u64; MAXN];
    let mut vals = [0u64; MAXN];
    let mut i = 0;
    while i < N {
        let k = s.u32();
        s.assume(k != 0);
        let mut j = 0;
        while j < i {
            s.assume(keys[j] != k as u64);
            j += 1;
        }
        keys[i] = k as u64;
        vals[i] = s.u8() as u64;
        i += 1;
    }
    let de = MapDe(Replay {
        keys,
        vals,
        n: N,
        pos: 0,
        hint: hint_of(HINT, N),
    });
    let t: HandleTable<u8> = match HandleTable::<u8>::deserialize(de) {
        Ok(t) => t,
        Err(_) => {
            assert!(false, "C11.handle_table.deserializes");
            return;
        }
    };
    assert!(t.len() == N, "C11.handle_table.len_after_deserialize");
    let mut i = 0;
    while i < N {
        assert!(
            t.get(hnd(keys[i] as u32)).copied() == Some(vals[i] as u8),
            "C11.handle_table.every_entry_present_after_deserialize"
        );
        i += 1;
    }
    let q = s.u32();
    s.assume(q != 0);
    let mut known = false;
    let mut i = 0;
    while i < N {
        known |= keys[i] == q as u64;
        i += 1;
    }
    if !known {
        assert!(t.get(hnd(q)).is_none(), "C11.handle_table.nothing_else_present");
    }
    // serialize: the same entries come out, each once
    let c = match t.serialize(MapSer) {
        Ok(c) => c,
        Err(_) => {
            assert!(false, "C11.handle_table.serializes");
            return;
        }
    };
    assert!(c.n == N && c.declared == Some(N), "C11.handle_table.serialized_entry_count");
    let mut i = 0;
    while i < N {
        let mut found = 0;
        let mut j = 0;
        while j < c.n {
            if c.keys[j] == keys[i] {
                found += 1;
                assert!(c.vals[j] == vals[i], "C11.handle_table.serialized_value");
            }
            j += 1;
        }
        assert!(found == 1, "C11.handle_table.each_entry_serialized_once");
        i += 1;
    }
    std::mem::forget(t);
    s.reached("c11.handle_table_roundtrip");
}

/// CaoHashMap<u8,u8>: same
pub fn hash_map_roundtrip<S: Src, const N: usize, const HINT: u8>(s: &mut S) {
    let mut keys = [0u64; MAXN];
    let mut vals = [0u64; MAXN];
    let mut i = 0;
    while i < N {
        let k = s.u8();
        let mut j = 0;
        while j < i {
            s.assume(keys[j] != k as u64);
            j += 1;
        }
        keys[i] = k as u64;
        vals[i] = s.u8() as u64;
        i += 1;
    }
    let de = MapDe(Replay {
        keys,
        vals,
        n: N,
        pos: 0,
        hint: hint_of(HINT, N),
    });
    let t: CaoHashMap<u8, u8> = match CaoHashMap::<u8, u8>::deserialize(de) {
        Ok(t) => t,
        Err(_) => {
            assert!(false, "C11.hash_map.deserializes");
            return;
        }
    };
    assert!(t.len() == N, "C11.hash_map.len_after_deserialize");
    let mut i = 0;
    while i < N {
        assert!(
            t.get(&(keys[i] as u8)).copied() == Some(vals[i] as u8),
            "C11.hash_map.every_entry_present_after_deserialize"
        );
        i += 1;
    }
    let c = match t.serialize(MapSer) {
        Ok(c) => c,
        Err(_) => {
            assert!(false, "C11.hash_map.serializes");
            return;
        }
    };
    assert!(c.n == N && c.declared == Some(N), "C11.hash_map.serialized_entry_count");
    let mut i = 0;
    while i < N {
        let mut found = 0;
        let mut j = 0;
        while j < c.n {
            if c.keys[j] == keys[i] {
                found += 1;
                assert!(c.vals[j] == vals[i], "C11.hash_map.serialized_value");
            }
            j += 1;
        }
        assert!(found == 1, "C11.hash_map.each_entry_serialized_once");
        i += 1;
    }
    std::mem::forget(t);
    s.reached("c11.hash_map_roundtrip");
}

crate::harnesses! {
    c11_handle_table_n2_exact / 12 => handle_table_roundtrip::<_, 2, 1>;
    c11_handle_table_n2_zero_hint / 12 => handle_table_roundtrip::<_, 2, 2>;
    c11_handle_table_n2_over_hint / 12 => handle_table_roundtrip::<_, 2, 3>;
    c11_handle_table_n1_exact / 12 => handle_table_roundtrip::<_, 1, 1>;
    c11_handle_table_n0_exact / 12 => handle_table_roundtrip::<_, 0, 1>;
    c11_handle_table_n3_exact / 12 => handle_table_roundtrip::<_, 3, 1>;
    c11_hash_map_n2_exact / 12 => hash_map_roundtrip::<_, 2, 1>;
    c11_hash_map_n2_zero_hint / 12 => hash_map_roundtrip::<_, 2, 2>;
    c11_hash_map_n2_over_hint / 12 => hash_map_roundtrip::<_, 2, 3>;
    c11_hash_map_n1_exact / 12 => hash_map_roundtrip::<_, 1, 1>;
    c11_hash_map_n0_exact / 12 => hash_map_roundtrip::<_, 0, 1>;
    c11_hash_map_n3_exact / 12 => hash_map_roundtrip::<_, 3, 1>;
}
