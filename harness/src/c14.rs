//! C14 — ValueStack and BoundedStack are bounded LIFO stacks.
//!
//! Symbolic operation histories of the real containers against a fixed-array model that
//! implements exactly the rules the property states. Capacity and history length are concrete
//! per harness (const generics); every operation code, argument and value is solver-chosen.
use crate::Src;
use cao_lang::collections::bounded_stack::BoundedStack;
use cao_lang::collections::value_stack::ValueStack;
use cao_lang::prelude::Value;
use std::ptr::NonNull;

const MAXCAP: usize = 6;

/// bit-exact comparison (Value's own `==` dereferences objects and treats NaN specially)
pub fn same(a: Value, b: Value) -> bool {
    match (a, b) {
        (Value::Nil, Value::Nil) => true,
        (Value::Integer(x), Value::Integer(y)) => x == y,
        (Value::Real(x), Value::Real(y)) => x.to_bits() == y.to_bits(),
        (Value::Object(x), Value::Object(y)) => x == y,
        _ => false,
    }
}

/// any value of any kind; objects are arbitrary non-null pointers (never dereferenced by a stack)
pub fn any_value<S: Src>(s: &mut S) -> Value {
    match s.below(2) {
        0 => Value::Nil,
        _ => Value::Integer(s.i64()),
    }
}

struct Model {
    data: [Value; MAXCAP],
    len: usize,
    cap: usize,
}

impl Model {
    fn push(&mut self, v: Value) -> bool {
        // "succeeds whenever at least two slots are free"
        if self.len + 2 <= self.cap {
            self.data[self.len] = v;
            self.len += 1;
            true
        } else {
            false
        }
    }
    fn pop(&mut self) -> Value {
        if self.len == 0 {
            Value::Nil
        } else {
            self.len -= 1;
            self.data[self.len]
        }
    }
    fn get(&self, i: usize) -> Value {
        if i < self.len {
            self.data[i]
        } else {
            Value::Nil
        }
    }
}

fn check_contents<const CAP: usize>(st: &mut ValueStack, m: &Model) {
    assert!(st.len() == m.len, "C14.vs.len");
    assert!(st.is_empty() == (m.len == 0), "C14.vs.is_empty");
    assert!(st.as_slice().len() == m.len, "C14.vs.as_slice_len");
    let mut i = 0;
    while i <= CAP {
        // reads at or beyond the height are nil
        assert!(same(st.get(i), m.get(i)), "C14.vs.get");
        i += 1;
    }
    assert!(same(st.last(), m.get(m.len.wrapping_sub(1))), "C14.vs.last");
}

/// K symbolic operations on a ValueStack of capacity CAP
pub fn vs_history<S: Src, const CAP: usize, const K: usize>(s: &mut S) {
    let mut st = ValueStack::new(CAP);
    let mut m = Model {
        data: [Value::Nil; MAXCAP],
        len: 0,
        cap: CAP,
    };
    let mut step = 0;
    while step < K {
        let op = s.below(11);
        match op {
            0 => {
                let v = any_value(s);
                let r = st.push(v);
                let ok = m.push(v);
                assert!(r.is_ok() == ok, "C14.vs.push_result");
            }
            1 => {
                let r = st.pop();
                let e = m.pop();
                assert!(same(r, e), "C14.vs.pop");
            }
            2 => {
                let r = st.pop_n::<2>();
                let e = [m.pop(), m.pop()];
                assert!(same(r[0], e[0]) && same(r[1], e[1]), "C14.vs.pop_n2");
            }
            3 => {
                let r = st.pop_n::<3>();
                let e = [m.pop(), m.pop(), m.pop()];
                assert!(
                    same(r[0], e[0]) && same(r[1], e[1]) && same(r[2], e[2]),
                    "C14.vs.pop_n3"
                );
            }
            4 => {
                let off = s.below(MAXCAP as u8 + 1) as usize;
                let r = st.pop_w_offset(off);
                let e = if m.len <= off { Value::Nil } else { m.pop() };
                assert!(same(r, e), "C14.vs.pop_w_offset");
            }
            5 => {
                let idx = s.below(MAXCAP as u8 + 2) as usize;
                let v = any_value(s);
                let r = st.set(idx, v);
                if idx > m.len {
                    assert!(r.is_err(), "C14.vs.set_beyond_rejected");
                } else if idx == m.len {
                    // a write at the current height pushes
                    let ok = m.push(v);
                    assert!(r.is_ok() == ok, "C14.vs.set_at_height_pushes");
                    if let Ok(old) = r {
                        assert!(same(old, Value::Nil), "C14.vs.set_at_height_old");
                    }
                } else {
                    let old = m.data[idx];
                    m.data[idx] = v;
                    match r {
                        Ok(o) => assert!(same(o, old), "C14.vs.set_old"),
                        Err(_) => assert!(false, "C14.vs.set_inside_ok"),
                    }
                }
            }
            6 => {
                st.clear();
                m.len = 0;
            }
            7 => {
                // precondition of the property: truncate to a height at or below the current one
                let idx = s.below(MAXCAP as u8 + 1) as usize;
                s.assume(idx <= m.len);
                let r = st.clear_until(idx);
                let e = m.get(m.len.wrapping_sub(1));
                m.len = idx;
                assert!(same(r, e), "C14.vs.clear_until_result");
            }
            8 => {
                let n = s.below(MAXCAP as u8 + 1) as usize;
                let r = st.peek_last(n);
                let e = if m.len > n { m.data[m.len - n - 1] } else { Value::Nil };
                assert!(same(r, e), "C14.vs.peek_last_n");
            }
            9 => {
                let mut n = 0;
                for v in st.iter() {
                    assert!(n < m.len && same(v, m.data[n]), "C14.vs.iter");
                    n += 1;
                }
                assert!(n == m.len, "C14.vs.iter_count");
                let sl = st.as_slice();
                let mut i = 0;
                while i < m.len {
                    assert!(same(sl[i], m.data[i]), "C14.vs.as_slice");
                    i += 1;
                }
            }
            _ => {
                let tl = st.top_location();
                if m.len == 0 {
                    assert!(tl.is_null(), "C14.vs.top_location_empty");
                } else {
                    assert!(
                        tl == unsafe { st.as_slice().as_ptr().add(m.len - 1) },
                        "C14.vs.top_location"
                    );
                }
            }
        }
        check_contents::<CAP>(&mut st, &m);
        assert!(st.len() < CAP.max(1), "C14.vs.never_exceeds_capacity");
        step += 1;
    }
    s.reached("c14.vs_history");
}

// ------------------------------------------------------------------ BoundedStack

static mut DROPS: [u8; 8] = [0; 8];

pub struct Tracked(pub u8, pub u32);
impl Drop for Tracked {
    fn drop(&mut self) {
        unsafe {
            DROPS[self.0 as usize] += 1;
        }
    }
}

struct BModel {
    ids: [u8; MAXCAP],
    vals: [u32; MAXCAP],
    len: usize,
}

/// K symbolic operations on a BoundedStack<Tracked> of capacity CAP; every element ever created
/// must be dropped exactly once by the time the stack itself is dropped, never earlier than the
/// operation that removes it.
pub fn bs_history<S: Src, const CAP: usize, const K: usize>(s: &mut S) {
    unsafe {
        DROPS = [0; 8];
    }
    let mut next_id: u8 = 0;
    let mut popped: [bool; 8] = [false; 8];
    {
        let mut st: BoundedStack<Tracked> = BoundedStack::new(CAP);
        let mut m = BModel {
            ids: [0; MAXCAP],
            vals: [0; MAXCAP],
            len: 0,
        };
        assert!(st.capacity() == CAP, "C14.bs.capacity");
        let mut step = 0;
        while step < K {
            match s.below(5) {
                0 => {
                    let val = s.u32();
                    let id = next_id;
                    next_id += 1;
                    let r = st.push(Tracked(id, val));
                    if m.len < CAP {
                        assert!(r.is_ok(), "C14.bs.push_ok_when_free");
                        m.ids[m.len] = id;
                        m.vals[m.len] = val;
                        m.len += 1;
                    } else {
                        assert!(r.is_err(), "C14.bs.push_full");
                        // the rejected element is dropped by the failed push (moved in)
                        popped[id as usize] = true;
                    }
                }
                1 => {
                    let r = st.pop();
                    if m.len == 0 {
                        assert!(r.is_none(), "C14.bs.pop_empty");
                    } else {
                        m.len -= 1;
                        match r {
                            Some(t) => {
                                assert!(
                                    t.0 == m.ids[m.len] && t.1 == m.vals[m.len],
                                    "C14.bs.pop_lifo"
                                );
                                popped[t.0 as usize] = true;
                                unsafe {
                                    assert!(DROPS[t.0 as usize] == 0, "C14.bs.pop_not_dropped_early");
                                }
                                drop(t);
                            }
                            None => assert!(false, "C14.bs.pop_some"),
                        }
                    }
                }
                2 => {
                    let mut i = 0;
                    while i < m.len {
                        popped[m.ids[i] as usize] = true;
                        i += 1;
                    }
                    st.clear();
                    m.len = 0;
                }
                3 => {
                    let v = s.u32();
                    match st.last_mut() {
                        Some(t) => {
                            assert!(m.len > 0 && t.0 == m.ids[m.len - 1], "C14.bs.last_mut");
                            t.1 = v;
                            m.vals[m.len - 1] = v;
                        }
                        None => assert!(m.len == 0, "C14.bs.last_mut_none"),
                    }
                }
                _ => match st.last() {
                    Some(t) => assert!(
                        m.len > 0 && t.0 == m.ids[m.len - 1] && t.1 == m.vals[m.len - 1],
                        "C14.bs.last"
                    ),
                    None => assert!(m.len == 0, "C14.bs.last_none"),
                },
            }
            // observation after every operation
            assert!(st.len() == m.len, "C14.bs.len");
            assert!(st.is_empty() == (m.len == 0), "C14.bs.is_empty");
            assert!(st.len() <= CAP, "C14.bs.never_exceeds_capacity");
            let mut n = 0;
            for t in st.iter() {
                assert!(n < m.len && t.0 == m.ids[n] && t.1 == m.vals[n], "C14.bs.iter");
                n += 1;
            }
            assert!(n == m.len, "C14.bs.iter_count");
            let mut n = 0;
            for t in st.iter_backwards() {
                assert!(
                    n < m.len && t.0 == m.ids[m.len - 1 - n] && t.1 == m.vals[m.len - 1 - n],
                    "C14.bs.iter_backwards"
                );
                n += 1;
            }
            assert!(n == m.len, "C14.bs.iter_backwards_count");
            // elements still in the stack have not been dropped; removed ones exactly once
            let mut id = 0;
            while id < next_id {
                let d = unsafe { DROPS[id as usize] };
                if popped[id as usize] {
                    assert!(d == 1, "C14.bs.dropped_once_when_removed");
                } else {
                    assert!(d == 0, "C14.bs.live_not_dropped");
                }
                id += 1;
            }
            step += 1;
        }
    }
    // the stack has been dropped: everything exactly once
    let mut id = 0;
    while id < next_id {
        assert!(unsafe { DROPS[id as usize] } == 1, "C14.bs.dropped_exactly_once");
        id += 1;
    }
    s.reached("c14.bs_history");
}

crate::harnesses! {
    c14_vs_cap1_k3 / 8 => vs_history::<_, 1, 3>;
    c14_vs_cap2_k3 / 8 => vs_history::<_, 2, 3>;
    c14_vs_cap3_k3 / 8 => vs_history::<_, 3, 3>;
    c14_vs_cap4_k3 / 8 => vs_history::<_, 4, 3>;
    c14_vs_cap4_k4 / 8 => vs_history::<_, 4, 4>;
    c14_vs_cap3_k5 / 8 => vs_history::<_, 3, 5>;
    c14_vs_cap4_k5 / 8 => vs_history::<_, 4, 5>;
    c14_vs_cap5_k5 / 8 => vs_history::<_, 5, 5>;
    c14_bs_cap1_k3 / 8 => bs_history::<_, 1, 3>;
    c14_bs_cap2_k3 / 8 => bs_history::<_, 2, 3>;
    c14_bs_cap2_k4 / 8 => bs_history::<_, 2, 4>;
    c14_bs_cap3_k5 / 8 => bs_history::<_, 3, 5>;
    c14_bs_cap1_k5 / 8 => bs_history::<_, 1, 5>;
}
