//! C05 — memory limit is enforced and garbage is reclaimed.
//!
//! Allocator step: arbitrary counters and limit, one `alloc` (and the matching `dealloc`).
//! Ledger on a small heap: object constructors of the real runtime under a solver-chosen
//! memory limit, then `clear()`; the accounted bytes must be exactly what is outstanding.
use crate::Src;
use cao_lang::verif_hooks::CaoLangAllocator;
use cao_lang::vm::runtime::RuntimeData;
use std::alloc::Layout;
use std::pin::Pin;
use std::sync::atomic::Ordering::Relaxed;

const BIG: usize = 1 << 40;

/// one allocation of SIZE bytes against arbitrary counters (no collection: threshold above limit)
pub fn alloc_step<S: Src, const SIZE: usize, const ALIGN: usize>(s: &mut S) {
    let limit = s.usize();
    s.assume(limit <= BIG);
    let a = CaoLangAllocator::new(std::ptr::null_mut(), limit);
    let before = s.usize();
    s.assume(before <= limit);
    a.allocated.store(before, Relaxed);
    a.next_gc.store(usize::MAX, Relaxed);
    let l = Layout::from_size_align(SIZE, ALIGN).unwrap();
    let charge = SIZE + ALIGN;
    let r = unsafe { a.alloc(l) };
    let after = a.allocated.load(Relaxed);
    match r {
        Ok(p) => {
            assert!(after <= limit, "C05.alloc.success_only_within_limit");
            assert!(after >= before + SIZE, "C05.alloc.success_charges_at_least_the_size");
            unsafe { a.dealloc(p, l) };
            assert!(a.allocated.load(Relaxed) == before, "C05.alloc.dealloc_refunds_what_alloc_charged");
        }
        Err(_) => {
            assert!(before + charge > limit, "C05.alloc.failure_only_when_request_does_not_fit");
            let _ = charge;
            assert!(after == before, "C05.alloc.failed_allocation_leaves_accounting_unchanged");
        }
    }
    s.reached("c05.alloc_step");
}

fn rt(limit: usize) -> Pin<Box<RuntimeData>> {
    RuntimeData::new(limit, 4, 2).unwrap()
}

/// constructors under a solver-chosen limit in 0..=255: whether they succeed or fail with
/// OutOfMemory, what is accounted is what is outstanding, and clear() returns it to zero
pub fn ledger<S: Src, const WHICH: u8, const LIMIT: usize>(s: &mut S) {
    // the limit is concrete per harness (a solver-chosen allocation failure makes the object
    // pointer symbolic and CBMC runs out of memory); the interesting limits are the ones between
    // the first and the second allocation of a constructor
    let limit = LIMIT;
    let _ = s.u8();
    let mut r = rt(limit);
    let rd = unsafe { Pin::get_unchecked_mut(r.as_mut()) };
    let ok = match WHICH {
        0 => rd.init_function(cao_lang::prelude::Handle::from_u32(1), 0).map(|g| drop(g)).is_ok(),
        1 => rd.init_string("abcd").map(|g| drop(g)).is_ok(),
        2 => rd.init_table().map(|g| drop(g)).is_ok(),
        5 => rd.init_string("").map(|g| drop(g)).is_ok(),
        3 => rd.init_closure(cao_lang::prelude::Handle::from_u32(1), 0).map(|g| drop(g)).is_ok(),
        _ => rd.init_upvalue(std::ptr::null_mut()).map(|g| drop(g)).is_ok(),
    };
    let (allocated, _, lim) = rd.verif_memory();
    assert!(allocated <= lim, "C05.ledger.accounted_never_exceeds_limit");
    if ok {
        assert!(rd.verif_object_count() == 1, "C05.ledger.object_registered");
        assert!(allocated > 0, "C05.ledger.live_object_is_accounted");
    } else {
        assert!(rd.verif_object_count() == 0, "C05.ledger.failed_constructor_registers_nothing");
        assert!(allocated == 0, "C05.ledger.failed_constructor_leaves_nothing_accounted");
    }
    rd.clear();
    let (allocated, _, _) = rd.verif_memory();
    assert!(allocated == 0, "C05.ledger.clear_returns_accounting_to_zero");
    assert!(rd.verif_object_count() == 0, "C05.ledger.clear_releases_every_object");
    std::mem::forget(r);
    s.reached("c05.ledger");
}

/// an unreachable object is reclaimed by a collection, a reachable one (on the value stack) is
/// kept, and the accounting follows
pub fn collect<S: Src, const ROOTED: bool>(s: &mut S) {
    let mut r = rt(1 << 16);
    let rd = unsafe { Pin::get_unchecked_mut(r.as_mut()) };
    let h = bytemuck::cast::<u32, cao_lang::prelude::Handle>(s.u32());
    let obj = rd.init_function(h, 1).unwrap().into_inner();
    // the guard has been released: the object is ordinary (white) again
    unsafe {
        (*obj.as_ptr()).marker = cao_lang::vm::runtime::cao_lang_object::GcMarker::White;
    }
    let (one, _, _) = rd.verif_memory();
    if ROOTED {
        assert!(rd.verif_stack().push(cao_lang::prelude::Value::Object(obj)).is_ok(), "harness.push");
    }
    rd.gc();
    let (after, _, _) = rd.verif_memory();
    if ROOTED {
        assert!(rd.verif_object_count() == 1 && after == one, "C05.gc.reachable_object_is_kept");
    } else {
        assert!(rd.verif_object_count() == 0 && after == 0, "C05.gc.unreachable_object_is_reclaimed");
    }
    std::mem::forget(r);
    s.reached("c05.collect");
}

crate::harnesses! {
    c05_alloc_step_8_8 / 3 => alloc_step::<_, 8, 8>;
    c05_alloc_step_72_8 / 3 => alloc_step::<_, 72, 8>;
    c05_alloc_step_1_1 / 3 => alloc_step::<_, 1, 1>;
    c05_alloc_step_4096_16 / 3 => alloc_step::<_, 4096, 16>;
    c05_ledger_function_95 / 20 => ledger::<_, 0, 95>;
    c05_ledger_function_96 / 20 => ledger::<_, 0, 96>;
    c05_ledger_string_100 / 20 => ledger::<_, 1, 100>;
    c05_ledger_string_115 / 20 => ledger::<_, 1, 115>;
    c05_ledger_string_116 / 20 => ledger::<_, 1, 116>;
    c05_ledger_table_100 / 20 => ledger::<_, 2, 100>;
    c05_ledger_table_423 / 20 => ledger::<_, 2, 423>;
    c05_ledger_table_424 / 20 => ledger::<_, 2, 424>;
    c05_ledger_empty_string_200 / 20 => ledger::<_, 5, 200>;
    c05_ledger_empty_string_98 / 20 => ledger::<_, 5, 98>;
    c05_ledger_closure_96 / 20 => ledger::<_, 3, 96>;
    c05_ledger_upvalue_95 / 20 => ledger::<_, 4, 95>;
    c05_collect_unrooted / 20 => collect::<_, false>;
    c05_collect_rooted / 20 => collect::<_, true>;
}
