//! C10 — structurally valid bytecode: the solver-decidable parts (DESIGN §3 C10 (b)).
//!
//! The operand encoders the compiler uses (`write_to_vec`, `encode_str`) and the decoders the
//! interpreter uses (`read_from_bytes`, `decode_str`, `read_str`) are inverse to each other for
//! every value, at every (unaligned) offset; the string decoder is total on arbitrary bytes and
//! never reports more bytes than it was given.
use crate::Src;
use cao_lang::prelude::Handle;
use cao_lang::verif_hooks::{decode_str, decode_value, encode_str, opcode_count, opcode_span, read_from_bytes, read_str, write_to_vec};

fn prefix<S: Src>(_s: &mut S, out: &mut Vec<u8>, k: usize) -> usize {
    // K junk bytes in front, so that the operand sits at an unaligned offset (concrete per
    // harness: a symbolic vector length does not close)
    let mut i = 0;
    while i < k {
        out.push(0xAA);
        i += 1;
    }
    k
}

pub fn roundtrip_ints<S: Src, const K: usize>(s: &mut S) {
    let mut out: Vec<u8> = Vec::with_capacity(32);
    let k = prefix(s, &mut out, K);
    let a = s.i64();
    let b = s.u32();
    let c = s.u32() as i32;
    let d = s.u8();
    write_to_vec(a, &mut out);
    write_to_vec(b, &mut out);
    write_to_vec(c, &mut out);
    write_to_vec(d, &mut out);
    assert!(out.len() == k + 8 + 4 + 4 + 1, "C10.operand.encoded_width");
    let mut ip = k;
    let ra: i64 = unsafe { decode_value(&out, &mut ip) };
    let rb: u32 = unsafe { decode_value(&out, &mut ip) };
    let rc: i32 = unsafe { decode_value(&out, &mut ip) };
    let rd: u8 = unsafe { decode_value(&out, &mut ip) };
    assert!(ra == a && rb == b && rc == c && rd == d, "C10.operand.decode_inverts_encode");
    assert!(ip == out.len(), "C10.operand.decoder_consumes_exactly_the_operand");
    // read_from_bytes refuses truncated input instead of reading out of bounds
    let cut = s.below(8) as usize;
    let r: Option<(usize, i64)> = read_from_bytes(&out[K..K + cut]);
    assert!(r.is_none(), "C10.operand.truncated_operand_is_rejected");
    s.reached("c10.roundtrip_ints");
}

pub fn roundtrip_float_handle<S: Src, const K: usize>(s: &mut S) {
    let mut out: Vec<u8> = Vec::with_capacity(32);
    let k = prefix(s, &mut out, K);
    let f = s.f64();
    let h = bytemuck::cast::<u32, Handle>(s.u32());
    write_to_vec(f, &mut out);
    write_to_vec(h, &mut out);
    let mut ip = k;
    let rf: f64 = unsafe { decode_value(&out, &mut ip) };
    let rh: Handle = unsafe { decode_value(&out, &mut ip) };
    assert!(rf.to_bits() == f.to_bits(), "C10.operand.float_bits_preserved");
    assert!(rh == h, "C10.operand.handle_preserved");
    assert!(ip == k + 12 && ip == out.len(), "C10.operand.decoder_consumes_exactly_the_operand");
    s.reached("c10.roundtrip_float_handle");
}

/// strings of concrete length LEN with solver-chosen ASCII content at a solver-chosen offset
pub fn roundtrip_str<S: Src, const LEN: usize, const K: usize>(s: &mut S) {
    let mut data: Vec<u8> = Vec::with_capacity(32);
    let k = prefix(s, &mut data, K);
    let mut b = [0u8; 8];
    let mut i = 0;
    while i < LEN {
        b[i] = s.u8();
        s.assume(b[i] < 0x80);
        i += 1;
    }
    let st = unsafe { std::str::from_utf8_unchecked(&b[..LEN]) };
    encode_str(st, &mut data);
    // something follows the string in the data section
    data.push(0x55);
    assert!(data.len() == k + 4 + LEN + 1, "C10.str.encoded_width");
    match decode_str(&data[k..]) {
        Some((n, got)) => {
            assert!(n == 4 + LEN, "C10.str.decoder_reports_consumed_length");
            assert!(got.as_bytes() == &b[..LEN], "C10.str.decode_inverts_encode");
        }
        None => assert!(false, "C10.str.encoded_string_decodes"),
    }
    let mut ip = k;
    match read_str(&mut ip, &data) {
        Some(got) => {
            assert!(got.as_bytes() == &b[..LEN], "C10.str.read_str_inverts_encode");
            assert!(ip == k + 4 + LEN, "C10.str.read_str_advances_past_the_string");
        }
        None => assert!(false, "C10.str.read_str_reads_encoded_string"),
    }
    s.reached("c10.roundtrip_str");
}

/// the string decoder on arbitrary (untrusted) bytes: total, and never claims more than it got
pub fn decode_str_total<S: Src, const N: usize>(s: &mut S) {
    let mut buf = [0u8; N];
    let mut i = 0;
    while i < N {
        buf[i] = s.u8();
        i += 1;
    }
    let cut = s.below(N as u8 + 1) as usize;
    match decode_str(&buf[..cut]) {
        Some((n, st)) => {
            assert!(n <= cut, "C10.str.decoder_stays_inside_the_buffer");
            assert!(n == 4 + st.len(), "C10.str.length_prefix_matches");
        }
        None => {}
    }
    s.reached("c10.decode_str_total");
}

/// the instruction-length table: every opcode byte below the count has a span >= 1, bytes at or
/// above the count are not opcodes
pub fn span_table<S: Src>(s: &mut S) {
    let n = opcode_count();
    let b = s.u8();
    match opcode_span(b) {
        Some(sp) => {
            assert!(b < n, "C10.span.only_opcodes_have_a_span");
            assert!(sp >= 1 && sp <= 21, "C10.span.span_in_range");
        }
        None => assert!(b >= n, "C10.span.every_opcode_has_a_span"),
    }
    s.reached("c10.span_table");
}

/// the interpreter's string reader on arbitrary data bytes at an arbitrary position inside the
/// data: never panics, never returns text outside the data, advances by exactly header + text
pub fn read_str_total<S: Src, const N: usize>(s: &mut S) {
    let mut buf = [0u8; N];
    let mut i = 0;
    while i < N {
        buf[i] = s.u8();
        i += 1;
    }
    let cut = s.below(N as u8 + 1) as usize;
    let p = s.below(N as u8 + 1) as usize;
    s.assume(p <= cut);
    let mut ip = p;
    match read_str(&mut ip, &buf[..cut]) {
        Some(st) => {
            assert!(ip == p + 4 + st.len(), "C10.str.read_str_advances_past_the_string");
            assert!(ip <= cut, "C10.str.read_str_stays_inside_the_data");
        }
        None => assert!(ip == p, "C10.str.failed_read_does_not_advance"),
    }
    s.reached("c10.read_str_total");
}

crate::harnesses! {
    c10_read_str_total_8 / 12 => read_str_total::<_, 8>;
    c10_roundtrip_ints_k0 / 10 => roundtrip_ints::<_, 0>;
    c10_roundtrip_ints_k3 / 10 => roundtrip_ints::<_, 3>;
    c10_roundtrip_float_handle_k1 / 10 => roundtrip_float_handle::<_, 1>;
    c10_roundtrip_str_0 / 10 => roundtrip_str::<_, 0, 0>;
    c10_roundtrip_str_1 / 10 => roundtrip_str::<_, 1, 2>;
    c10_roundtrip_str_3 / 10 => roundtrip_str::<_, 3, 1>;
    c10_roundtrip_str_5 / 12 => roundtrip_str::<_, 5, 3>;
    c10_decode_str_total_6 / 10 => decode_str_total::<_, 6>;
    c10_decode_str_total_8 / 12 => decode_str_total::<_, 8>;
    c10_span_table / 50 => span_table;
}
