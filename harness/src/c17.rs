//! C17 — a cleared VM behaves like a fresh one; runs do not leak.
//!
//! "Behaves like" is decided as equality of every state component a later run can read
//! (stack height, call depth, globals, object list, open upvalues, allocator counters and
//! collection threshold), observed through the hooks.
use crate::vmh::*;
use crate::Src;
use cao_lang::prelude::*;
use std::sync::atomic::Ordering::Relaxed;

type St = (usize, usize, usize, usize, bool, usize, usize, usize);

fn state(vm: &mut Vm<'static, ()>) -> St {
    let rd = &mut vm.runtime_data;
    let (a, g, l) = rd.verif_memory();
    (
        rd.verif_stack_len(),
        rd.verif_call_depth(),
        rd.verif_globals().len(),
        rd.verif_object_count(),
        rd.verif_open_upvalues().is_null(),
        a,
        g,
        l,
    )
}

/// after any earlier activity (values on the stack, globals, an object, frames, and a
/// collection threshold raised to an arbitrary value by earlier collections) clear() restores
/// exactly the state of a newly created VM with the same limits
pub fn clear_equals_fresh<S: Src>(s: &mut S) {
    cao_lang::verif_hooks::set_skip_error_trace(true);
    let mut fresh = Vm::verif_new_small((), 1 << 12, 8, 4).unwrap();
    let f = state(&mut fresh);
    let mut vm = Vm::verif_new_small((), 1 << 12, 8, 4).unwrap();
    let x = s.i64();
    vm.stack_push(Value::Integer(x)).unwrap();
    vm.runtime_data.verif_globals().push(Value::Integer(x));
    vm.runtime_data.verif_push_frame(1, 2, 0, None);
    let _ = vm.init_function(Handle::from_u32(1), 0).unwrap();
    // earlier collections may have moved the threshold anywhere
    let g = s.usize();
    vm.runtime_data.verif_allocator().next_gc.store(g, Relaxed);
    vm.clear();
    let c = state(&mut vm);
    assert!(c.0 == f.0, "C17.clear.value_stack_empty");
    assert!(c.1 == f.1, "C17.clear.call_stack_empty");
    assert!(c.2 == f.2, "C17.clear.globals_empty");
    assert!(c.3 == f.3, "C17.clear.no_objects");
    assert!(c.4 == f.4, "C17.clear.no_open_upvalues");
    assert!(c.5 == f.5, "C17.clear.accounted_memory_as_fresh");
    assert!(c.7 == f.7, "C17.clear.limit_as_fresh");
    assert!(c.6 == f.6, "C17.clear.collection_threshold_as_fresh");
    std::mem::forget(vm);
    std::mem::forget(fresh);
    s.reached("c17.clear_equals_fresh");
}

/// running a balanced program repeatedly without clear does not consume call frames
pub fn run_does_not_leak_frames<S: Src, const FAILS: bool>(s: &mut S) {
    cao_lang::verif_hooks::set_skip_error_trace(true);
    let mut vm = Vm::verif_new_small((), 1 << 12, 8, 2).unwrap();
    let mut prog = CaoCompiledProgram::default();
    let x = s.i64();
    let mut a = Asm::new();
    if FAILS {
        a.int(x).op(op::CALL_FUNCTION).exit();
    } else {
        a.int(x).op(op::POP).exit();
    }
    prog.bytecode = a.bc;
    let r1 = vm.run(&prog);
    assert!(r1.is_ok() != FAILS, "C17.run.first_outcome");
    assert!(vm.runtime_data.verif_call_depth() == 0, "C17.run.call_stack_as_before_the_run");
    if FAILS {
        vm.clear();
    }
    let r2 = vm.run(&prog);
    assert!(r2.is_ok() == r1.is_ok(), "C17.run.same_outcome_every_time");
    assert!(vm.runtime_data.verif_call_depth() == 0, "C17.run.call_stack_as_before_the_run");
    let r3 = vm.run(&prog);
    assert!(r3.is_ok() == r1.is_ok(), "C17.run.third_run_same_outcome");
    std::mem::forget((r1, r2, r3));
    std::mem::forget(vm);
    std::mem::forget(prog);
    s.reached("c17.run_does_not_leak_frames");
}

crate::harnesses! {
    #[kani::stub(alloc::fmt::format, crate::stub_format)]
    c17_clear_equals_fresh / 18 => clear_equals_fresh;
    #[kani::stub(alloc::fmt::format, crate::stub_format)]
    c17_run_three_times_ok / 18 => run_does_not_leak_frames::<_, false>;
    #[kani::stub(alloc::fmt::format, crate::stub_format)]
    c17_run_three_times_failing / 18 => run_does_not_leak_frames::<_, true>;
}
