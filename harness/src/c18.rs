//! C18 — host functions receive the right arguments and can safely re-enter scripts.
//!
//! The typed fn-pointer wrappers (`VmFunction::call` for arities 1..=4) are driven directly on a
//! small VM whose value stack holds solver-chosen values of a concrete kind tuple; the native
//! records its parameters in the VM's auxiliary data. One-dispatch `CallNative` harnesses cover
//! result placement, error wrapping and lookup. Re-entrancy: a native calling `run_function`.
use crate::vmh::*;
use crate::Src;
use cao_lang::compiled_program::Label;
use cao_lang::prelude::*;

#[derive(Default)]
pub struct Rec {
    pub calls: u32,
    pub i: [i64; 4],
    pub f: f64,
    pub b: bool,
    pub v: Option<Value>,
    pub depth_seen: usize,
    pub stack_seen: usize,
    pub reenter: Option<Value>,
    pub reenter_result: Option<Result<Value, u8>>,
}

type V = Vm<'static, Rec>;
type R = Result<Value, ExecutionErrorPayload>;

fn n1_i64(vm: &mut Vm<Rec>, a: i64) -> R {
    let r = vm.get_aux_mut();
    r.calls += 1;
    r.i[0] = a;
    Ok(Value::Integer(41))
}
fn n2_i64_f64(vm: &mut Vm<Rec>, a: i64, b: f64) -> R {
    let r = vm.get_aux_mut();
    r.calls += 1;
    r.i[0] = a;
    r.f = b;
    Ok(Value::Integer(42))
}
fn n3_i64_bool_value(vm: &mut Vm<Rec>, a: i64, b: bool, c: Value) -> R {
    let r = vm.get_aux_mut();
    r.calls += 1;
    r.i[0] = a;
    r.b = b;
    r.v = Some(c);
    Ok(Value::Integer(43))
}
fn n4_i64x4(vm: &mut Vm<Rec>, a: i64, b: i64, c: i64, d: i64) -> R {
    let r = vm.get_aux_mut();
    r.calls += 1;
    r.i = [a, b, c, d];
    Ok(Value::Integer(44))
}
fn n1_nilable(vm: &mut Vm<Rec>, a: Nilable<i64>) -> R {
    let r = vm.get_aux_mut();
    r.calls += 1;
    r.i[0] = a.0.unwrap_or(-7);
    r.b = a.0.is_some();
    Ok(Value::Nil)
}
fn n2_table_i64(vm: &mut Vm<Rec>, _t: &CaoLangTable, a: i64) -> R {
    let r = vm.get_aux_mut();
    r.calls += 1;
    r.i[0] = a;
    Ok(Value::Nil)
}
fn n1_fails(vm: &mut Vm<Rec>, _a: i64) -> R {
    vm.get_aux_mut().calls += 1;
    Err(ExecutionErrorPayload::Unimplemented)
}

fn new_vm() -> V {
    cao_lang::verif_hooks::set_skip_error_trace(true);
    Vm::verif_new_small(Rec::default(), 1 << 16, 10, 4).unwrap()
}

pub const NIL: u8 = 0;
pub const INT: u8 = 1;
pub const REAL: u8 = 2;

fn sym<S: Src>(k: u8, s: &mut S) -> Value {
    match k {
        NIL => Value::Nil,
        INT => Value::Integer(s.i64()),
        _ => {
            let r = s.f64();
            s.assume(r.is_finite());
            Value::Real(r)
        }
    }
}

/// documented conversions
fn to_i64(v: Value) -> i64 {
    match v {
        Value::Integer(i) => i,
        Value::Real(r) => r as i64,
        _ => 0,
    }
}
fn to_f64(v: Value) -> f64 {
    match v {
        Value::Integer(i) => i as f64,
        Value::Real(r) => r,
        _ => 0.0,
    }
}
fn to_bool(v: Value) -> bool {
    match v {
        Value::Integer(i) => i != 0,
        Value::Real(r) => r != 0.0,
        _ => false,
    }
}

const SENTINEL: i64 = 0x5e47;

/// arity 2: (i64, f64) from a solver-chosen value pair of kinds (K1, K2)
pub fn wrapper2<S: Src, const K1: u8, const K2: u8>(s: &mut S) {
    let mut vm = new_vm();
    let x = sym(K1, s);
    let y = sym(K2, s);
    vm.stack_push(Value::Integer(SENTINEL)).unwrap();
    vm.stack_push(x).unwrap();
    vm.stack_push(y).unwrap();
    let f = into_f2(n2_i64_f64);
    let r = f.call(&mut vm);
    assert!(matches!(r, Ok(Value::Integer(42))), "C18.wrapper.returns_native_result");
    let rec = vm.get_aux();
    assert!(rec.calls == 1, "C18.wrapper.native_called_once");
    assert!(rec.i[0] == to_i64(x), "C18.wrapper.param1_is_first_pushed_value_converted");
    assert!(rec.f.to_bits() == to_f64(y).to_bits(), "C18.wrapper.param2_is_second_pushed_value_converted");
    assert!(vm.runtime_data.verif_stack_len() == 1, "C18.wrapper.consumes_exactly_k_values");
    assert!(same(vm.runtime_data.verif_stack_get(0), Value::Integer(SENTINEL)), "C18.wrapper.values_below_untouched");
    std::mem::forget(r);
    std::mem::forget(vm);
    s.reached("c18.wrapper2");
}

pub fn wrapper3<S: Src, const K1: u8, const K2: u8, const K3: u8>(s: &mut S) {
    let mut vm = new_vm();
    let x = sym(K1, s);
    let y = sym(K2, s);
    let z = sym(K3, s);
    vm.stack_push(Value::Integer(SENTINEL)).unwrap();
    vm.stack_push(x).unwrap();
    vm.stack_push(y).unwrap();
    vm.stack_push(z).unwrap();
    let f = into_f3(n3_i64_bool_value);
    let r = f.call(&mut vm);
    assert!(matches!(r, Ok(Value::Integer(43))), "C18.wrapper.returns_native_result");
    let rec = vm.get_aux();
    assert!(rec.calls == 1, "C18.wrapper.native_called_once");
    assert!(rec.i[0] == to_i64(x), "C18.wrapper.param1_is_first_pushed_value_converted");
    assert!(rec.b == to_bool(y), "C18.wrapper.param2_is_second_pushed_value_converted");
    assert!(rec.v.map(|v| same(v, z)).unwrap_or(false), "C18.wrapper.param3_is_third_pushed_value");
    assert!(vm.runtime_data.verif_stack_len() == 1, "C18.wrapper.consumes_exactly_k_values");
    assert!(same(vm.runtime_data.verif_stack_get(0), Value::Integer(SENTINEL)), "C18.wrapper.values_below_untouched");
    std::mem::forget(r);
    std::mem::forget(vm);
    s.reached("c18.wrapper3");
}

pub fn wrapper4<S: Src>(s: &mut S) {
    let mut vm = new_vm();
    let v = [s.i64(), s.i64(), s.i64(), s.i64()];
    vm.stack_push(Value::Integer(SENTINEL)).unwrap();
    let mut k = 0;
    while k < 4 {
        vm.stack_push(Value::Integer(v[k])).unwrap();
        k += 1;
    }
    let f = into_f4(n4_i64x4);
    let r = f.call(&mut vm);
    assert!(matches!(r, Ok(Value::Integer(44))), "C18.wrapper.returns_native_result");
    let rec = vm.get_aux();
    assert!(
        rec.i[0] == v[0] && rec.i[1] == v[1] && rec.i[2] == v[2] && rec.i[3] == v[3],
        "C18.wrapper.four_params_in_declaration_order"
    );
    assert!(vm.runtime_data.verif_stack_len() == 1, "C18.wrapper.consumes_exactly_k_values");
    std::mem::forget(r);
    std::mem::forget(vm);
    s.reached("c18.wrapper4");
}

pub fn wrapper1_nilable<S: Src, const K: u8>(s: &mut S) {
    let mut vm = new_vm();
    let x = sym(K, s);
    vm.stack_push(x).unwrap();
    let f = into_f1(n1_nilable);
    let r = f.call(&mut vm);
    assert!(r.is_ok(), "C18.wrapper.nilable_accepts_nil_and_numbers");
    let rec = vm.get_aux();
    if K == NIL {
        assert!(!rec.b, "C18.wrapper.nil_becomes_none");
    } else {
        assert!(rec.b && rec.i[0] == to_i64(x), "C18.wrapper.nilable_some_is_converted_value");
    }
    assert!(vm.runtime_data.verif_stack_len() == 0, "C18.wrapper.consumes_exactly_k_values");
    std::mem::forget(r);
    std::mem::forget(vm);
    s.reached("c18.wrapper1_nilable");
}

/// a value that cannot be converted (a number where a table is expected): invalid argument, the
/// native is not called
pub fn wrapper_conversion_failure<S: Src, const K: u8>(s: &mut S) {
    let mut vm = new_vm();
    let x = sym(K, s);
    let y = s.i64();
    vm.stack_push(x).unwrap();
    vm.stack_push(Value::Integer(y)).unwrap();
    let f = into_f2(n2_table_i64);
    let r = f.call(&mut vm);
    match &r {
        Err(e) => assert!(kind_of(e) == E_INVALID_ARG, "C18.wrapper.conversion_failure_is_invalid_argument"),
        Ok(_) => assert!(false, "C18.wrapper.conversion_failure_is_invalid_argument"),
    }
    assert!(vm.get_aux().calls == 0, "C18.wrapper.native_not_called_on_conversion_failure");
    std::mem::forget(r);
    std::mem::forget(vm);
    s.reached("c18.wrapper_conversion_failure");
}

fn run_call_native(vm: &mut V, prog: &mut CaoCompiledProgram, name: &str) -> ExecutionResult<()> {
    let h = Handle::from_bytes(name.as_bytes());
    let mut a = Asm::new();
    a.op(op::CALL_NATIVE).bytes(bytemuck::bytes_of(&h)).exit();
    prog.bytecode = a.bc;
    vm.runtime_data.verif_push_frame(0, 0, 0, None);
    vm.max_instr = 16;
    let (res, _) = vm.verif_run_from(prog, 0);
    res
}

/// CallNative through the interpreter: the returned value becomes the value of the call
pub fn call_native_result<S: Src>(s: &mut S) {
    let mut vm = new_vm();
    let mut prog = CaoCompiledProgram::default();
    assert!(vm.register_native_function("f", into_f1(n1_i64)).is_ok(), "C18.register.ok");
    let x = s.i64();
    vm.stack_push(Value::Integer(SENTINEL)).unwrap();
    vm.stack_push(Value::Integer(x)).unwrap();
    let res = run_call_native(&mut vm, &mut prog, "f");
    assert!(res.is_ok(), "C18.call_native.ok");
    assert!(vm.get_aux().i[0] == x && vm.get_aux().calls == 1, "C18.call_native.argument_delivered");
    assert!(vm.runtime_data.verif_stack_len() == 2, "C18.call_native.result_replaces_arguments");
    assert!(same(vm.runtime_data.verif_stack_get(1), Value::Integer(41)), "C18.call_native.result_is_value_of_the_call");
    assert!(same(vm.runtime_data.verif_stack_get(0), Value::Integer(SENTINEL)), "C18.call_native.values_below_untouched");
    std::mem::forget(res);
    std::mem::forget(vm);
    std::mem::forget(prog);
    s.reached("c18.call_native_result");
}

/// an error returned by the native surfaces as TaskFailure carrying the function's name
pub fn call_native_error<S: Src>(s: &mut S) {
    let mut vm = new_vm();
    let mut prog = CaoCompiledProgram::default();
    assert!(vm.register_native_function("boom", into_f1(n1_fails)).is_ok(), "C18.register.ok");
    vm.stack_push(Value::Integer(s.i64())).unwrap();
    let res = run_call_native(&mut vm, &mut prog, "boom");
    match &res {
        Err(e) => match &e.payload {
            ExecutionErrorPayload::TaskFailure { name, error } => {
                assert!(name.as_str() == "boom", "C18.call_native.task_failure_carries_name");
                assert!(matches!(**error, ExecutionErrorPayload::Unimplemented), "C18.call_native.task_failure_carries_error");
            }
            _ => assert!(false, "C18.call_native.native_error_is_task_failure"),
        },
        Ok(()) => assert!(false, "C18.call_native.native_error_is_task_failure"),
    }
    std::mem::forget(res);
    std::mem::forget(vm);
    std::mem::forget(prog);
    s.reached("c18.call_native_error");
}

/// unknown native: ProcedureNotFound; reserved names cannot be registered
pub fn call_native_missing_and_reserved<S: Src>(s: &mut S) {
    let mut vm = new_vm();
    let mut prog = CaoCompiledProgram::default();
    assert!(vm.register_native_function("__x", into_f1(n1_i64)).is_err(), "C18.register.reserved_prefix_rejected");
    assert!(vm.register_native_function("f", into_f1(n1_i64)).is_ok(), "C18.register.ok");
    vm.stack_push(Value::Integer(s.i64())).unwrap();
    let res = run_call_native(&mut vm, &mut prog, "g");
    match &res {
        Err(e) => assert!(kind_of(&e.payload) == E_PROC_NOT_FOUND, "C18.call_native.unknown_function_is_procedure_not_found"),
        Ok(()) => assert!(false, "C18.call_native.unknown_function_is_procedure_not_found"),
    }
    std::mem::forget(res);
    std::mem::forget(vm);
    std::mem::forget(prog);
    s.reached("c18.call_native_missing");
}

/// native that calls back into a script function with the argument it was given
fn n1_reenter(vm: &mut Vm<Rec>, a: i64) -> R {
    let f = vm.get_aux().reenter.unwrap();
    vm.get_aux_mut().depth_seen = vm.runtime_data.verif_call_depth();
    vm.get_aux_mut().stack_seen = vm.runtime_data.verif_stack_len();
    vm.stack_push(Value::Integer(a))?;
    let r = vm.run_function(f);
    let depth_after = vm.runtime_data.verif_call_depth();
    let stack_after = vm.runtime_data.verif_stack_len();
    let rec = vm.get_aux_mut();
    rec.calls += 1;
    rec.i[1] = depth_after as i64;
    rec.i[2] = stack_after as i64;
    match r {
        Ok(v) => {
            rec.reenter_result = Some(Ok(v));
            Ok(v)
        }
        Err(e) => {
            rec.reenter_result = Some(Err(kind_of(&e)));
            Err(e)
        }
    }
}

/// re-entrancy: host function -> run_function(script function returning its argument)
pub fn reenter_script_function<S: Src>(s: &mut S) {
    let mut vm = new_vm();
    let mut prog = CaoCompiledProgram::default();
    assert!(vm.register_native_function("r", into_f1(n1_reenter)).is_ok(), "C18.register.ok");
    let x = s.i64();
    let h = Handle::from_u32(5);
    let hn = Handle::from_bytes(b"r");
    let mut a = Asm::new();
    a.op(op::CALL_NATIVE).bytes(bytemuck::bytes_of(&hn)).exit();
    let fpos = a.pos();
    a.read_local(0).op(op::RETURN);
    // run_function returns through the trap frame to the last byte of the program: Exit
    a.exit();
    prog.bytecode = a.bc;
    prog.labels.0.insert(h, Label::new(fpos as u32)).unwrap();
    let fobj = vm.init_function(h, 1).unwrap().into_inner();
    vm.get_aux_mut().reenter = Some(Value::Object(fobj));
    vm.stack_push(Value::Integer(SENTINEL)).unwrap();
    vm.stack_push(Value::Integer(x)).unwrap();
    vm.runtime_data.verif_push_frame(0, 0, 0, None);
    vm.max_instr = 16;
    let (res, _) = vm.verif_run_from(&prog, 0);
    assert!(res.is_ok(), "C18.reenter.ok");
    let rec = vm.get_aux();
    assert!(rec.calls == 1, "C18.reenter.native_called_once");
    assert!(matches!(rec.reenter_result, Some(Ok(v)) if same(v, Value::Integer(x))), "C18.reenter.callee_sees_argument_and_result_is_handed_back");
    assert!(rec.i[1] as usize == rec.depth_seen, "C18.reenter.call_stack_as_before");
    assert!(rec.i[2] as usize == rec.stack_seen, "C18.reenter.value_stack_as_before");
    assert!(vm.runtime_data.verif_stack_len() == 2, "C18.reenter.outer_stack_is_previous_plus_result");
    assert!(same(vm.runtime_data.verif_stack_get(0), Value::Integer(SENTINEL)), "C18.reenter.values_below_untouched");
    assert!(same(vm.runtime_data.verif_stack_get(1), Value::Integer(x)), "C18.reenter.result_on_top");
    std::mem::forget(res);
    std::mem::forget(vm);
    std::mem::forget(prog);
    s.reached("c18.reenter_script_function");
}

crate::harnesses! {
    #[kani::stub(alloc::fmt::format, crate::stub_format)]
    c18_wrapper2_int_int / 12 => wrapper2::<_, INT, INT>;
    #[kani::stub(alloc::fmt::format, crate::stub_format)]
    c18_wrapper2_real_int / 12 => wrapper2::<_, REAL, INT>;
    #[kani::stub(alloc::fmt::format, crate::stub_format)]
    c18_wrapper2_nil_real / 12 => wrapper2::<_, NIL, REAL>;
    #[kani::stub(alloc::fmt::format, crate::stub_format)]
    c18_wrapper2_int_nil / 12 => wrapper2::<_, INT, NIL>;
    #[kani::stub(alloc::fmt::format, crate::stub_format)]
    c18_wrapper3_int_int_int / 12 => wrapper3::<_, INT, INT, INT>;
    #[kani::stub(alloc::fmt::format, crate::stub_format)]
    c18_wrapper3_real_nil_int / 12 => wrapper3::<_, REAL, NIL, INT>;
    #[kani::stub(alloc::fmt::format, crate::stub_format)]
    c18_wrapper3_nil_real_real / 12 => wrapper3::<_, NIL, REAL, REAL>;
    #[kani::stub(alloc::fmt::format, crate::stub_format)]
    c18_wrapper4_ints / 12 => wrapper4;
    #[kani::stub(alloc::fmt::format, crate::stub_format)]
    c18_wrapper1_nilable_nil / 12 => wrapper1_nilable::<_, NIL>;
    #[kani::stub(alloc::fmt::format, crate::stub_format)]
    c18_wrapper1_nilable_int / 12 => wrapper1_nilable::<_, INT>;
    #[kani::stub(alloc::fmt::format, crate::stub_format)]
    c18_wrapper1_nilable_real / 12 => wrapper1_nilable::<_, REAL>;
    #[kani::stub(alloc::fmt::format, crate::stub_format)]
    c18_conversion_failure_int / 12 => wrapper_conversion_failure::<_, INT>;
    #[kani::stub(alloc::fmt::format, crate::stub_format)]
    c18_conversion_failure_nil / 12 => wrapper_conversion_failure::<_, NIL>;
    #[kani::stub(alloc::fmt::format, crate::stub_format)]
    c18_call_native_result / 18 => call_native_result;
    #[kani::stub(alloc::fmt::format, crate::stub_format)]
    c18_call_native_error / 18 => call_native_error;
    #[kani::stub(alloc::fmt::format, crate::stub_format)]
    c18_call_native_missing_and_reserved / 18 => call_native_missing_and_reserved;
    #[kani::stub(alloc::fmt::format, crate::stub_format)]
    c18_reenter_script_function / 18 => reenter_script_function;
}
