//! C16 — the module editing API is index-consistent and atomic.
//!
//! Card level: for every card kind (list-like kinds at arities 0..=3) a card is built whose
//! children are leaves with distinct tags in the documented order; the child count, both child
//! iterators and both child lookups must agree with that order for a solver-chosen index, and
//! insert/remove/replace at a solver-chosen index must change exactly the addressed child or
//! fail and change nothing.
//! Module level: concrete skeleton modules, solver-chosen CardIndex (function and up to three
//! sub-indices); walk/get agreement, insert∘remove, replace twice, swap twice, failed edits.
use crate::Src;
use cao_lang::compiler::{
    CallNode, Card, CardBody, CardIndex, CompositeCard, DynamicJump, ForEach, Function, Module,
    Repeat, SetVar, StaticJump, UnaryExpression,
};

const MAXCH: usize = 5;

pub fn leaf(t: i64) -> Card {
    CardBody::ScalarInt(t).into()
}

/// tag of a leaf; -1 for the `ScalarNil` placeholder `remove_child` leaves behind; -2 otherwise
pub fn tag(c: &Card) -> i64 {
    match &c.body {
        CardBody::ScalarInt(t) => *t,
        CardBody::ScalarNil => -1,
        _ => -2,
    }
}

fn bin() -> Box<[Card; 2]> {
    Box::new([leaf(1), leaf(2)])
}
fn un() -> UnaryExpression {
    UnaryExpression::new(leaf(1))
}
fn tri() -> Box<[Card; 3]> {
    Box::new([leaf(1), leaf(2), leaf(3)])
}
fn leaves(n: usize) -> Vec<Card> {
    let mut v = Vec::with_capacity(n + 1);
    let mut i = 0;
    while i < n {
        v.push(leaf(1 + i as i64));
        i += 1;
    }
    v
}

/// (card, number of children, is list-like). Children carry tags 1..=n in the documented order.
pub fn make(kind: u8, arity: usize) -> (Card, usize, bool) {
    let (body, n, list) = match kind {
        0 => (CardBody::Add(bin()), 2, false),
        1 => (CardBody::Sub(bin()), 2, false),
        2 => (CardBody::Mul(bin()), 2, false),
        3 => (CardBody::Div(bin()), 2, false),
        4 => (CardBody::Less(bin()), 2, false),
        5 => (CardBody::LessOrEq(bin()), 2, false),
        6 => (CardBody::Equals(bin()), 2, false),
        7 => (CardBody::NotEquals(bin()), 2, false),
        8 => (CardBody::And(bin()), 2, false),
        9 => (CardBody::Or(bin()), 2, false),
        10 => (CardBody::Xor(bin()), 2, false),
        11 => (CardBody::GetProperty(bin()), 2, false),
        12 => (CardBody::IfTrue(bin()), 2, false),
        13 => (CardBody::IfFalse(bin()), 2, false),
        14 => (CardBody::While(bin()), 2, false),
        15 => (CardBody::Get(bin()), 2, false),
        16 => (CardBody::AppendTable(bin()), 2, false),
        17 => (CardBody::Not(un()), 1, false),
        18 => (CardBody::Return(un()), 1, false),
        19 => (CardBody::Len(un()), 1, false),
        20 => (CardBody::PopTable(un()), 1, false),
        21 => (CardBody::IfElse(tri()), 3, false),
        22 => (CardBody::SetProperty(tri()), 3, false),
        23 => (
            CardBody::SetGlobalVar(Box::new(SetVar {
                name: String::new(),
                value: leaf(1),
            })),
            1,
            false,
        ),
        24 => (
            CardBody::SetVar(Box::new(SetVar {
                name: String::new(),
                value: leaf(1),
            })),
            1,
            false,
        ),
        25 => (
            CardBody::Repeat(Box::new(Repeat {
                i: None,
                n: leaf(1),
                body: leaf(2),
            })),
            2,
            false,
        ),
        26 => (
            CardBody::ForEach(Box::new(ForEach {
                i: None,
                k: None,
                v: None,
                iterable: Box::new(leaf(1)),
                body: Box::new(leaf(2)),
            })),
            2,
            false,
        ),
        // leaves
        27 => (CardBody::ScalarNil, 0, false),
        28 => (CardBody::CreateTable, 0, false),
        29 => (CardBody::Abort, 0, false),
        30 => (CardBody::ScalarFloat(1.5), 0, false),
        31 => (CardBody::StringLiteral(String::new()), 0, false),
        32 => (CardBody::Function(String::new()), 0, false),
        33 => (CardBody::NativeFunction(String::new()), 0, false),
        34 => (CardBody::ReadVar(String::new()), 0, false),
        35 => (CardBody::Comment(String::new()), 0, false),
        36 => (CardBody::ScalarInt(77), 0, false),
        // list-like
        37 => (
            CardBody::CompositeCard(Box::new(CompositeCard {
                ty: String::new(),
                cards: leaves(arity),
            })),
            arity,
            true,
        ),
        38 => (
            CardBody::Closure(Box::new(Function {
                arguments: Vec::new(),
                cards: leaves(arity),
            })),
            arity,
            true,
        ),
        39 => (CardBody::Array(leaves(arity)), arity, true),
        40 => (
            CardBody::Call(Box::new(StaticJump {
                args: leaves(arity).into(),
                function_name: String::new(),
            })),
            arity,
            true,
        ),
        41 => (
            CardBody::CallNative(Box::new(CallNode {
                name: String::new(),
                args: leaves(arity).into(),
            })),
            arity,
            true,
        ),
        // function first, then the arguments: tags 1, 2.. in that order
        _ => {
            let mut args = Vec::with_capacity(arity + 1);
            let mut i = 0;
            while i < arity {
                args.push(leaf(2 + i as i64));
                i += 1;
            }
            (
                CardBody::DynamicCall(Box::new(DynamicJump {
                    args: args.into(),
                    function: leaf(1),
                })),
                arity + 1,
                true,
            )
        }
    };
    (
        Card {
            id: Default::default(),
            body,
        },
        n,
        list,
    )
}

/// count, both iterators and both lookups agree with `expect[..n]`
pub fn check_children<S: Src>(c: &mut Card, expect: &[i64; MAXCH], n: usize, s: &mut S) {
    assert!(c.num_children() as usize == n, "C16.card.num_children");
    let mut k = 0;
    for ch in c.iter_children() {
        assert!(k < n && tag(ch) == expect[k], "C16.card.iter_children_order");
        k += 1;
    }
    assert!(k == n, "C16.card.iter_children_count");
    let mut k = 0;
    for ch in c.iter_children_mut() {
        assert!(k < n && tag(ch) == expect[k], "C16.card.iter_children_mut_order");
        k += 1;
    }
    assert!(k == n, "C16.card.iter_children_mut_count");
    let i = s.below(MAXCH as u8 + 2) as usize;
    match c.get_child(i) {
        Some(ch) => assert!(i < n && tag(ch) == expect[i], "C16.card.get_child_is_ith_iterated"),
        None => assert!(i >= n, "C16.card.get_child_none_only_beyond"),
    }
    match c.get_child_mut(i) {
        Some(ch) => assert!(i < n && tag(ch) == expect[i], "C16.card.get_child_mut_is_ith_iterated"),
        None => assert!(i >= n, "C16.card.get_child_mut_none_only_beyond"),
    }
}

fn initial(n: usize, kind: u8) -> [i64; MAXCH] {
    let mut e = [0i64; MAXCH];
    let mut i = 0;
    while i < n {
        e[i] = 1 + i as i64;
        i += 1;
    }
    let _ = kind;
    e
}

/// child enumeration / count / lookup agree, for the kinds in KINDS (arity for list-like kinds)
pub fn children_agree<S: Src, const FIRST: u8, const LAST: u8, const ARITY: usize>(s: &mut S) {
    let mut kind = FIRST;
    while kind <= LAST {
        let (mut c, n, _) = make(kind, ARITY);
        let e = initial(n, kind);
        check_children(&mut c, &e, n, s);
        std::mem::forget(c);
        kind += 1;
    }
    s.reached("c16.children_agree");
}

/// replace_child at a solver-chosen index; replacing back restores the card
pub fn replace_child<S: Src, const FIRST: u8, const LAST: u8, const ARITY: usize>(s: &mut S) {
    let mut kind = FIRST;
    while kind <= LAST {
        let (mut c, n, _) = make(kind, ARITY);
        let mut e = initial(n, kind);
        let i = s.below(MAXCH as u8 + 2) as usize;
        match c.replace_child(i, leaf(99)) {
            Ok(old) => {
                assert!(i < n && tag(&old) == e[i], "C16.card.replace_returns_old");
                e[i] = 99;
                check_children(&mut c, &e, n, s);
                // replacing back restores
                match c.replace_child(i, old) {
                    Ok(x) => {
                        assert!(tag(&x) == 99, "C16.card.replace_back_returns_new");
                        std::mem::forget(x);
                    }
                    Err(_) => assert!(false, "C16.card.replace_back_ok"),
                }
                e[i] = 1 + i as i64;
                check_children(&mut c, &e, n, s);
            }
            Err(back) => {
                assert!(i >= n && tag(&back) == 99, "C16.card.replace_fails_only_beyond");
                check_children(&mut c, &e, n, s);
                std::mem::forget(back);
            }
        }
        std::mem::forget(c);
        kind += 1;
    }
    s.reached("c16.replace_child");
}

/// insert_child at a solver-chosen index, then remove_child at the same index
pub fn insert_remove_child<S: Src, const FIRST: u8, const LAST: u8, const ARITY: usize>(s: &mut S) {
    let mut kind = FIRST;
    while kind <= LAST {
        let (mut c, n, list) = make(kind, ARITY);
        let mut e = initial(n, kind);
        let i = s.below(MAXCH as u8 + 2) as usize;
        // a dynamic call's slot 0 is its (fixed) function child
        let fixed_slot = !list || (kind == 42 && i == 0);
        let r = c.insert_child(i, leaf(99));
        if fixed_slot {
            // documented: on a non-list card insert replaces the child at the index
            match r {
                Ok(()) => {
                    assert!(i < n, "C16.card.insert_fixed_ok_only_inside");
                    e[i] = 99;
                    check_children(&mut c, &e, n, s);
                }
                Err(back) => {
                    assert!(i >= n && tag(&back) == 99, "C16.card.insert_invalid_index_fails");
                    check_children(&mut c, &e, n, s);
                    std::mem::forget(back);
                }
            }
        } else {
            match r {
                Ok(()) => {
                    assert!(i <= n, "C16.card.insert_invalid_index_fails");
                    // shift
                    let mut k = n;
                    while k > i {
                        e[k] = e[k - 1];
                        k -= 1;
                    }
                    e[i] = 99;
                    check_children(&mut c, &e, n + 1, s);
                    // remove undoes insert at the same index
                    match c.remove_child(i) {
                        Some(x) => {
                            assert!(tag(&x) == 99, "C16.card.remove_returns_inserted");
                            std::mem::forget(x);
                        }
                        None => assert!(false, "C16.card.remove_after_insert_some"),
                    }
                    let e0 = initial(n, kind);
                    check_children(&mut c, &e0, n, s);
                }
                Err(back) => {
                    assert!(i > n && tag(&back) == 99, "C16.card.insert_list_fails_only_beyond_end");
                    check_children(&mut c, &e, n, s);
                    std::mem::forget(back);
                }
            }
        }
        std::mem::forget(c);
        kind += 1;
    }
    s.reached("c16.insert_remove_child");
}

/// remove_child at a solver-chosen index
pub fn remove_child<S: Src, const FIRST: u8, const LAST: u8, const ARITY: usize>(s: &mut S) {
    let mut kind = FIRST;
    while kind <= LAST {
        let (mut c, n, list) = make(kind, ARITY);
        let mut e = initial(n, kind);
        let i = s.below(MAXCH as u8 + 2) as usize;
        let fixed_slot = !list || (kind == 42 && i == 0);
        match c.remove_child(i) {
            Some(x) => {
                assert!(i < n && tag(&x) == e[i], "C16.card.remove_returns_child");
                std::mem::forget(x);
                if fixed_slot {
                    // the slot stays, filled with a placeholder; nothing else changes
                    let ph = c.get_child(i).map(tag);
                    assert!(ph == Some(-1) || ph == Some(0), "C16.card.remove_fixed_leaves_placeholder");
                    e[i] = ph.unwrap_or(-1);
                    check_children(&mut c, &e, n, s);
                } else {
                    let mut k = i;
                    while k + 1 < n {
                        e[k] = e[k + 1];
                        k += 1;
                    }
                    check_children(&mut c, &e, n - 1, s);
                }
            }
            None => {
                assert!(i >= n, "C16.card.remove_fails_only_beyond");
                check_children(&mut c, &e, n, s);
            }
        }
        std::mem::forget(c);
        kind += 1;
    }
    s.reached("c16.remove_child");
}

/// remove_child on ONE card kind at a solver-chosen index: it succeeds exactly for the indices
/// child enumeration reports and hands back that child (the cheap half of `remove_child`:
/// nothing is dropped, the remaining children are only counted)
pub fn remove_child_bounds<S: Src, const KIND: u8, const ARITY: usize>(s: &mut S) {
    let (mut c, n, list) = make(KIND, ARITY);
    let e = initial(n, KIND);
    let i = s.below(MAXCH as u8 + 2) as usize;
    let fixed_slot = !list || (KIND == 42 && i == 0);
    match c.remove_child(i) {
        Some(x) => {
            assert!(i < n, "C16.card.remove_succeeds_only_for_enumerated_children");
            assert!(tag(&x) == e[i], "C16.card.remove_returns_child");
            std::mem::forget(x);
            let left = c.num_children() as usize;
            assert!(left == if fixed_slot { n } else { n - 1 }, "C16.card.remove_takes_exactly_one_child");
        }
        None => {
            assert!(i >= n, "C16.card.remove_fails_only_beyond");
            assert!(c.num_children() as usize == n, "C16.card.failed_remove_changes_nothing");
        }
    }
    std::mem::forget(c);
    s.reached("c16.remove_child_bounds");
}

// ------------------------------------------------------------------ Module level

/// skeleton: two functions; cards tagged so that every card in the module has a distinct tag.
///   f0: [ IfElse(L10, Composite[L11, Add(L12, L13)], L14), L15 ]
///   f1: [ Call(args [L20, Not(L21)]), L22 ]
/// Non-leaf cards are identified by the tags of their leaves.
pub fn skeleton() -> Module {
    let add: Card = CardBody::Add(Box::new([leaf(12), leaf(13)])).into();
    let comp = Card::composite_card("", vec![leaf(11), add]);
    let ifelse: Card = CardBody::IfElse(Box::new([leaf(10), comp, leaf(14)])).into();
    let not: Card = CardBody::Not(UnaryExpression::new(leaf(21))).into();
    let call = Card::call_function("", vec![leaf(20), not]);
    Module {
        submodules: Vec::new(),
        imports: Vec::new(),
        functions: vec![
            (
                String::new(),
                Function {
                    arguments: Vec::new(),
                    cards: vec![ifelse, leaf(15)],
                },
            ),
            (
                String::new(),
                Function {
                    arguments: Vec::new(),
                    cards: vec![call, leaf(22)],
                },
            ),
        ],
    }
}

const NT: usize = 16;

/// Pre-order fingerprint written against the public fields of the card types (independent of
/// the child API under test): (depth, kind-or-tag) per card.
pub struct Fp {
    pub n: usize,
    pub v: [(u8, i64); NT],
}

fn kind_code(c: &Card) -> i64 {
    match &c.body {
        CardBody::ScalarInt(t) => *t,
        CardBody::ScalarNil => -1,
        CardBody::IfElse(_) => -10,
        CardBody::CompositeCard(_) => -11,
        CardBody::Add(_) => -12,
        CardBody::Call(_) => -13,
        CardBody::Not(_) => -14,
        _ => -99,
    }
}

fn fp_card(c: &Card, depth: u8, out: &mut Fp) {
    if out.n < NT {
        out.v[out.n] = (depth, kind_code(c));
    }
    out.n += 1;
    match &c.body {
        CardBody::IfElse(t) => {
            fp_card(&t[0], depth + 1, out);
            fp_card(&t[1], depth + 1, out);
            fp_card(&t[2], depth + 1, out);
        }
        CardBody::CompositeCard(cc) => {
            for x in cc.cards.iter() {
                fp_card(x, depth + 1, out);
            }
        }
        CardBody::Add(b) => {
            fp_card(&b[0], depth + 1, out);
            fp_card(&b[1], depth + 1, out);
        }
        CardBody::Call(j) => {
            for x in j.args.0.iter() {
                fp_card(x, depth + 1, out);
            }
        }
        CardBody::Not(u) => fp_card(&u.card, depth + 1, out),
        _ => {}
    }
}

pub fn fingerprint(m: &Module) -> Fp {
    let mut out = Fp {
        n: 0,
        v: [(0, 0); NT],
    };
    for (_, f) in m.functions.iter() {
        if out.n < NT {
            out.v[out.n] = (0, -50);
        }
        out.n += 1;
        for c in f.cards.iter() {
            fp_card(c, 1, &mut out);
        }
    }
    out
}

fn same_fp(a: &Fp, b: &Fp) -> bool {
    if a.n != b.n {
        return false;
    }
    let mut i = 0;
    while i < NT {
        if i < a.n && a.v[i] != b.v[i] {
            return false;
        }
        i += 1;
    }
    true
}

/// index with concrete function F and depth D (a symbolic SmallVec length does not finish);
/// the one to three sub-indices are solver-chosen in 0..=3
pub fn sym_index<S: Src, const F: usize, const D: usize>(s: &mut S) -> CardIndex {
    let f = F;
    let depth = D;
    let a = s.below(4) as u32;
    let b = s.below(4) as u32;
    let c = s.below(4) as u32;
    match depth {
        1 => CardIndex::from_slice(f, &[a]),
        2 => CardIndex::from_slice(f, &[a, b]),
        _ => CardIndex::from_slice(f, &[a, b, c]),
    }
}

/// reference lookup by index on the skeleton (own navigation over the public fields)
fn ref_get<'a>(m: &'a Module, idx: &CardIndex) -> Option<&'a Card> {
    let (_, f) = m.functions.get(idx.function)?;
    let ind = idx.card_index.indices.as_slice();
    let mut c = f.cards.get(*ind.first()? as usize)?;
    let mut d = 1;
    while d < ind.len() {
        let i = ind[d] as usize;
        c = match &c.body {
            CardBody::IfElse(t) => t.get(i)?,
            CardBody::CompositeCard(cc) => cc.cards.get(i)?,
            CardBody::Add(b) => b.get(i)?,
            CardBody::Call(j) => j.args.0.get(i)?,
            CardBody::Not(u) => {
                if i == 0 {
                    &u.card
                } else {
                    return None;
                }
            }
            _ => return None,
        };
        d += 1;
    }
    Some(c)
}

pub fn module_get<S: Src, const F: usize, const D: usize>(s: &mut S) {
    let mut m = skeleton();
    let idx = sym_index::<S, F, D>(s);
    let expect = ref_get(&m, &idx).map(kind_code);
    let got = m.get_card(&idx).ok().map(kind_code);
    assert!(got == expect, "C16.module.get_card_resolves_index");
    let got = m.get_card_mut(&idx).ok().map(|c| kind_code(c));
    assert!(got == expect, "C16.module.get_card_mut_resolves_index");
    std::mem::forget(m);
    s.reached("c16.module_get");
}

/// every card is visited exactly once, with an index that resolves to that same card
pub fn module_walk<S: Src>(s: &mut S) {
    let mut m = skeleton();
    let fp = fingerprint(&m);
    let total = fp.n - m.functions.len();
    // collect (index, code) pairs visited
    let mut visited: [(Option<CardIndex>, i64); NT] = Default::default();
    let mut n = 0usize;
    m.walk_cards(|idx, card| {
        if n < NT {
            visited[n] = (Some(idx.clone()), kind_code(card));
        }
        n += 1;
    });
    assert!(n == total, "C16.module.walk_visits_every_card_once_count");
    // a solver-chosen visit resolves to the same card, and no other visit has the same index
    let k = s.below(NT as u8) as usize;
    s.assume(k < n);
    let idx = visited[k].0.clone().unwrap();
    let got = m.get_card(&idx).ok().map(kind_code);
    assert!(got == Some(visited[k].1), "C16.module.walk_index_resolves_to_visited_card");
    let j = s.below(NT as u8) as usize;
    s.assume(j < n && j != k);
    assert!(visited[j].0.as_ref() != Some(&idx), "C16.module.walk_each_index_once");
    std::mem::forget(visited);
    std::mem::forget(m);
    s.reached("c16.module_walk");
}

pub fn module_replace<S: Src, const F: usize, const D: usize>(s: &mut S) {
    let mut m = skeleton();
    let fp0 = fingerprint(&m);
    let idx = sym_index::<S, F, D>(s);
    let valid = ref_get(&m, &idx).is_some();
    match m.replace_card(&idx, leaf(99)) {
        Ok(old) => {
            assert!(valid, "C16.module.replace_invalid_index_fails");
            assert!(m.get_card(&idx).ok().map(kind_code) == Some(99), "C16.module.replace_puts_card_at_index");
            match m.replace_card(&idx, old) {
                Ok(x) => {
                    assert!(tag(&x) == 99, "C16.module.replace_back_returns_new");
                    std::mem::forget(x);
                }
                Err(_) => assert!(false, "C16.module.replace_back_ok"),
            }
            assert!(same_fp(&fingerprint(&m), &fp0), "C16.module.replace_back_restores");
        }
        Err(_) => {
            assert!(!valid, "C16.module.replace_valid_index_ok");
            assert!(same_fp(&fingerprint(&m), &fp0), "C16.module.failed_replace_is_noop");
        }
    }
    std::mem::forget(m);
    s.reached("c16.module_replace");
}

/// is the addressed parent a list (top level of a function, composite, call arguments)?
fn parent_is_list(m: &Module, idx: &CardIndex) -> Option<(bool, usize)> {
    let ind = idx.card_index.indices.as_slice();
    if ind.len() == 1 {
        let (_, f) = m.functions.get(idx.function)?;
        return Some((true, f.cards.len()));
    }
    let mut parent = idx.clone();
    parent.pop_subindex();
    let p = ref_get(m, &parent)?;
    Some(match &p.body {
        CardBody::CompositeCard(cc) => (true, cc.cards.len()),
        CardBody::Call(j) => (true, j.args.0.len()),
        CardBody::IfElse(_) => (false, 3),
        CardBody::Add(_) => (false, 2),
        CardBody::Not(_) => (false, 1),
        _ => (false, 0),
    })
}

pub fn module_insert_remove<S: Src, const F: usize, const D: usize>(s: &mut S) {
    let mut m = skeleton();
    let fp0 = fingerprint(&m);
    let idx = sym_index::<S, F, D>(s);
    let last = *idx.card_index.indices.last().unwrap() as usize;
    let info = parent_is_list(&m, &idx);
    match m.insert_card(&idx, leaf(99)) {
        Ok(()) => {
            match info {
                Some((true, len)) => {
                    assert!(last <= len, "C16.module.insert_invalid_index_fails");
                    assert!(m.get_card(&idx).ok().map(kind_code) == Some(99), "C16.module.insert_puts_card_at_index");
                    // remove undoes insert at the same index
                    match m.remove_card(&idx) {
                        Ok(x) => {
                            assert!(tag(&x) == 99, "C16.module.remove_returns_inserted");
                            std::mem::forget(x);
                        }
                        Err(_) => assert!(false, "C16.module.remove_after_insert_ok"),
                    }
                    assert!(same_fp(&fingerprint(&m), &fp0), "C16.module.remove_undoes_insert");
                }
                Some((false, len)) => {
                    // fixed-arity parent: insert replaces (documented)
                    assert!(last < len, "C16.module.insert_invalid_index_fails");
                    assert!(m.get_card(&idx).ok().map(kind_code) == Some(99), "C16.module.insert_puts_card_at_index");
                }
                None => assert!(false, "C16.module.insert_invalid_index_fails"),
            }
        }
        Err(_) => {
            let valid = match info {
                Some((true, len)) => last <= len,
                Some((false, len)) => last < len,
                None => false,
            };
            assert!(!valid, "C16.module.insert_valid_index_ok");
            assert!(same_fp(&fingerprint(&m), &fp0), "C16.module.failed_insert_is_noop");
        }
    }
    std::mem::forget(m);
    s.reached("c16.module_insert_remove");
}

pub fn module_remove<S: Src, const F: usize, const D: usize>(s: &mut S) {
    let mut m = skeleton();
    let fp0 = fingerprint(&m);
    let idx = sym_index::<S, F, D>(s);
    let expect = ref_get(&m, &idx).map(kind_code);
    match m.remove_card(&idx) {
        Ok(x) => {
            assert!(expect == Some(kind_code(&x)), "C16.module.remove_returns_addressed_card");
            std::mem::forget(x);
            let fp1 = fingerprint(&m);
            assert!(fp1.n < fp0.n || !same_fp(&fp1, &fp0), "C16.module.remove_changes_module");
        }
        Err(_) => {
            assert!(expect.is_none(), "C16.module.remove_valid_index_ok");
            assert!(same_fp(&fingerprint(&m), &fp0), "C16.module.failed_remove_is_noop");
        }
    }
    std::mem::forget(m);
    s.reached("c16.module_remove");
}

fn is_prefix(a: &CardIndex, b: &CardIndex) -> bool {
    // a is a proper ancestor of b
    if a.function != b.function {
        return false;
    }
    let x = a.card_index.indices.as_slice();
    let y = b.card_index.indices.as_slice();
    if x.len() >= y.len() {
        return false;
    }
    let mut i = 0;
    while i < x.len() {
        if x[i] != y[i] {
            return false;
        }
        i += 1;
    }
    true
}

pub fn module_swap<S: Src, const FA: usize, const DA: usize, const FB: usize, const DB: usize>(
    s: &mut S,
) {
    let mut m = skeleton();
    let fp0 = fingerprint(&m);
    let a = sym_index::<S, FA, DA>(s);
    let b = sym_index::<S, FB, DB>(s);
    let ca = ref_get(&m, &a).map(kind_code);
    let cb = ref_get(&m, &b).map(kind_code);
    let related = is_prefix(&a, &b) || is_prefix(&b, &a);
    match m.swap_cards(&a, &b) {
        Ok(()) => {
            assert!(ca.is_some() && cb.is_some(), "C16.module.swap_invalid_index_fails");
            assert!(!related, "C16.module.swap_with_ancestor_fails");
            assert!(m.get_card(&a).ok().map(kind_code) == cb, "C16.module.swap_moves_b_to_a");
            assert!(m.get_card(&b).ok().map(kind_code) == ca, "C16.module.swap_moves_a_to_b");
            // swapping twice is the identity
            assert!(m.swap_cards(&a, &b).is_ok(), "C16.module.swap_back_ok");
            assert!(same_fp(&fingerprint(&m), &fp0), "C16.module.swap_twice_is_identity");
        }
        Err(_) => {
            assert!(ca.is_none() || cb.is_none() || related, "C16.module.swap_of_unrelated_valid_cards_ok");
            assert!(same_fp(&fingerprint(&m), &fp0), "C16.module.failed_swap_is_noop");
        }
    }
    std::mem::forget(m);
    s.reached("c16.module_swap");
}

/// swapping a card with itself leaves the module unchanged (any valid index of the given depth)
pub fn module_swap_self<S: Src, const F: usize, const D: usize>(s: &mut S) {
    let mut m = skeleton();
    let fp0 = fingerprint(&m);
    let a = sym_index::<S, F, D>(s);
    let ca = ref_get(&m, &a).map(kind_code);
    let r = m.swap_cards(&a, &a);
    assert!(r.is_ok() == ca.is_some(), "C16.module.swap_with_itself_succeeds_iff_the_card_exists");
    assert!(m.get_card(&a).ok().map(kind_code) == ca, "C16.module.swap_with_itself_keeps_the_card");
    assert!(same_fp(&fingerprint(&m), &fp0), "C16.module.swap_with_itself_is_a_noop");
    std::mem::forget(r);
    std::mem::forget(m);
    s.reached("c16.module_swap_self");
}

crate::harnesses! {
    c16_module_swap_self_f0d1 / 18 => module_swap_self::<_, 0, 1>;
    c16_module_swap_self_f0d2 / 18 => module_swap_self::<_, 0, 2>;
    c16_children_bin_a / 8 => children_agree::<_, 0, 5, 0>;
    c16_children_bin_b / 8 => children_agree::<_, 6, 11, 0>;
    c16_children_bin_c / 8 => children_agree::<_, 12, 16, 0>;
    c16_children_unary / 8 => children_agree::<_, 17, 20, 0>;
    c16_children_ternary_setvar / 8 => children_agree::<_, 21, 24, 0>;
    c16_children_repeat_foreach / 8 => children_agree::<_, 25, 26, 0>;
    c16_children_leaves / 12 => children_agree::<_, 27, 36, 0>;
    c16_children_lists_a0 / 8 => children_agree::<_, 37, 42, 0>;
    c16_children_lists_a1 / 8 => children_agree::<_, 37, 42, 1>;
    c16_children_lists_a3 / 8 => children_agree::<_, 37, 42, 3>;
    c16_replace_bin_c / 8 => replace_child::<_, 12, 16, 0>;
    c16_replace_unary / 8 => replace_child::<_, 17, 20, 0>;
    c16_replace_ternary_setvar / 8 => replace_child::<_, 21, 24, 0>;
    c16_replace_repeat_foreach / 8 => replace_child::<_, 25, 26, 0>;
    c16_replace_lists_a2_x / 8 => replace_child::<_, 37, 39, 2>;
    c16_replace_lists_a2_y / 8 => replace_child::<_, 40, 42, 2>;
    c16_insert_bin_a / 8 => insert_remove_child::<_, 0, 5, 0>;
    c16_insert_unary / 8 => insert_remove_child::<_, 17, 20, 0>;
    c16_insert_ternary_setvar / 8 => insert_remove_child::<_, 21, 24, 0>;
    c16_insert_repeat_foreach / 8 => insert_remove_child::<_, 25, 26, 0>;
    c16_insert_leaves / 12 => insert_remove_child::<_, 27, 36, 0>;
    c16_insert_lists_a0 / 8 => insert_remove_child::<_, 37, 42, 0>;
    c16_insert_lists_a2_x / 8 => insert_remove_child::<_, 37, 39, 2>;
    c16_insert_lists_a2_y / 8 => insert_remove_child::<_, 40, 42, 2>;
    c16_remove_bin_b / 8 => remove_child::<_, 6, 11, 0>;
    c16_remove_unary / 8 => remove_child::<_, 17, 20, 0>;
    c16_remove_ternary_setvar / 8 => remove_child::<_, 21, 24, 0>;
    c16_remove_repeat_foreach / 8 => remove_child::<_, 25, 26, 0>;
    c16_remove_bounds_k37_a2 / 8 => remove_child_bounds::<_, 37, 2>;
    c16_remove_bounds_k38_a2 / 8 => remove_child_bounds::<_, 38, 2>;
    c16_remove_bounds_k39_a2 / 8 => remove_child_bounds::<_, 39, 2>;
    c16_remove_bounds_k40_a2 / 8 => remove_child_bounds::<_, 40, 2>;
    c16_remove_bounds_k41_a2 / 8 => remove_child_bounds::<_, 41, 2>;
    c16_remove_bounds_k42_a2 / 8 => remove_child_bounds::<_, 42, 2>;
    c16_remove_lists_a1 / 8 => remove_child::<_, 37, 42, 1>;
    c16_remove_lists_a3_x / 8 => remove_child::<_, 37, 39, 3>;
    c16_remove_lists_a3_y / 8 => remove_child::<_, 40, 42, 3>;
    c16_module_get_f0_d1 / 8 => module_get::<_, 0, 1>;
    c16_module_get_f0_d2 / 8 => module_get::<_, 0, 2>;
    c16_module_get_f0_d3 / 8 => module_get::<_, 0, 3>;
    c16_module_get_f1_d3 / 8 => module_get::<_, 1, 3>;
    c16_module_get_f2_d1 / 8 => module_get::<_, 2, 1>;
    c16_module_walk / 18 => module_walk;
    c16_module_replace_f0_d2 / 18 => module_replace::<_, 0, 2>;
    c16_module_replace_f0_d3 / 18 => module_replace::<_, 0, 3>;
    c16_module_replace_f1_d2 / 18 => module_replace::<_, 1, 2>;
    c16_module_insert_f0_d1 / 18 => module_insert_remove::<_, 0, 1>;
    c16_module_insert_f0_d3 / 18 => module_insert_remove::<_, 0, 3>;
    c16_module_insert_f1_d2 / 18 => module_insert_remove::<_, 1, 2>;
    c16_module_insert_f1_d3 / 18 => module_insert_remove::<_, 1, 3>;
    c16_module_remove_f0_d2 / 18 => module_remove::<_, 0, 2>;
    c16_module_remove_f0_d3 / 18 => module_remove::<_, 0, 3>;
    c16_module_remove_f1_d1 / 18 => module_remove::<_, 1, 1>;
    c16_module_swap_f0d1_f0d1 / 18 => module_swap::<_, 0, 1, 0, 1>;
    c16_module_swap_f0d2_f0d3 / 18 => module_swap::<_, 0, 2, 0, 3>;
    c16_module_swap_f0d2_f1d2 / 18 => module_swap::<_, 0, 2, 1, 2>;
    c16_module_swap_f0d1_f0d2 / 18 => module_swap::<_, 0, 1, 0, 2>;
}
