//! Solver-checked harnesses for cao-lang.
//!
//! Every harness is a plain generic function `fn(&mut impl Src)`. Under Kani the source of
//! nondeterminism is `kani::any()`, so the solver quantifies over every value drawn from it; in
//! the native `replay` binary the same function body runs on the concrete values Kani printed for
//! a counterexample, which is how a counterexample is confirmed against the real build before it
//! is reported.
#![allow(clippy::all)]
#![allow(dead_code)]

extern crate alloc;

pub mod src;
pub use src::*;

pub mod vmh;

/// Replacement for `alloc::fmt::format` in VM harnesses: error messages are built with
/// `format!` on paths the harness does not care about, and formatting dominates symbolic
/// execution time (DESIGN §0). Message *text* is therefore outside every claim.
/// Replacement for `tracing::level_filters::LevelFilter::current`: no subscriber is installed and
/// the maximum level is OFF, so every `debug!`/`trace!` site in the interpreter is skipped.
#[cfg(kani)]
pub fn stub_level_off() -> tracing::level_filters::LevelFilter {
    tracing::level_filters::LevelFilter::OFF
}

/// Replacement for `RandomState::new` (std `HashMap` seeds come from a `getrandom` syscall Kani
/// does not model): fixed SipHash keys. Only iteration order of std maps depends on them.
#[cfg(kani)]
pub fn stub_random_state() -> std::hash::RandomState {
    unsafe { std::mem::transmute::<[u64; 2], std::hash::RandomState>([0x0123_4567_89ab_cdef, 0x0f1e_2d3c_4b5a_6978]) }
}

#[cfg(kani)]
pub fn stub_format(_args: core::fmt::Arguments<'_>) -> String {
    String::new()
}

pub mod c01;
pub mod c02;
pub mod c03;
pub mod c04;
pub mod c05;
pub mod c06;
pub mod c07;
pub mod c08;
pub mod c10;
pub mod c11;
pub mod c12;
pub mod c13;
pub mod c14;
pub mod c15;
pub mod c16;
pub mod c17;
pub mod c18;
pub mod c19;
pub mod fx;

/// name -> native entry point, used by the replay binary
pub fn registry() -> Vec<(&'static str, fn(&mut BytesSrc))> {
    let mut v: Vec<(&'static str, fn(&mut BytesSrc))> = Vec::new();
    c01::register(&mut v);
    c02::register(&mut v);
    c03::register(&mut v);
    c04::register(&mut v);
    c05::register(&mut v);
    c06::register(&mut v);
    c07::register(&mut v);
    c08::register(&mut v);
    c10::register(&mut v);
    c11::register(&mut v);
    c12::register(&mut v);
    c13::register(&mut v);
    c16::register(&mut v);
    c18::register(&mut v);
    c19::register(&mut v);
    fx::register(&mut v);
    c14::register(&mut v);
    c15::register(&mut v);
    c17::register(&mut v);
    v
}
