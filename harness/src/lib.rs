//! Solver-checked harnesses for cao-lang.
//!
//! Every harness is a plain generic function `fn(&mut impl Src)`. Under Kani the source of
//! nondeterminism is `kani::any()`, so the solver quantifies over every value drawn from it; in
//! the native `replay` binary the same function body runs on the concrete values Kani printed for
//! a counterexample, which is how a counterexample is confirmed against the real build before it
//! is reported.
#![allow(clippy::all)]
#![allow(dead_code)]

pub mod src;
pub use src::*;

pub mod c14;

/// name -> native entry point, used by the replay binary
pub fn registry() -> Vec<(&'static str, fn(&mut BytesSrc))> {
    let mut v: Vec<(&'static str, fn(&mut BytesSrc))> = Vec::new();
    c14::register(&mut v);
    v
}
