//! Solver-checked harnesses for cao-lang.
//!
//! Every harness is a plain generic function `fn(&mut impl Src)`. Under Kani the source of
//! nondeterminism is `kani::any()`, so the solver quantifies over every value drawn from it; in
//! the native `replay` binary the same function body runs on the concrete values Kani printed for
//! a counterexample, which is how a counterexample is confirmed against the real build before it
//! is reported.
#![allow(clippy::all)]
#![allow(dead_code)]

pub mod src;
pub use src::*;

pub mod c12;
pub mod c13;
pub mod c14;
pub mod c16;
pub mod c19;

/// name -> native entry point, used by the replay binary
pub fn registry() -> Vec<(&'static str, fn(&mut BytesSrc))> {
    let mut v: Vec<(&'static str, fn(&mut BytesSrc))> = Vec::new();
    c12::register(&mut v);
    c13::register(&mut v);
    c16::register(&mut v);
    c19::register(&mut v);
    c14::register(&mut v);
    v
}
