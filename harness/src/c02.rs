//! C02 — garbage collection never invalidates a value the program can still use.
//!
//! The `gc_requested` hook forces a collection at chosen allocation points; the schedule is a
//! solver-chosen bit mask over the fragment's allocations. Oracles: Kani's own pointer checks
//! (any access to a freed object anywhere in the fragment is a failure) plus a content audit of
//! the values that must survive. Natively (replay) freed objects are quarantined as tombstones,
//! so a stale read fails the audit deterministically.
use crate::vmh::*;
use crate::Src;
use cao_lang::compiled_program::Label;
use cao_lang::prelude::*;
use cao_lang::verif_hooks::{encode_str, set_gc_schedule};
use cao_lang::vm::runtime::cao_lang_object::{CaoLangObject, GcMarker};
use std::ptr::NonNull;

fn rig() -> Rig {
    #[cfg(not(kani))]
    cao_lang::verif_hooks::set_quarantine(true);
    Rig::new(8, 4, 1 << 16)
}

fn unguard(o: NonNull<CaoLangObject>) -> NonNull<CaoLangObject> {
    unsafe {
        (*o.as_ptr()).marker = GcMarker::White;
    }
    o
}

fn is_str(v: Value, expect: &[u8]) -> bool {
    match v {
        Value::Object(_) => match unsafe { v.as_str() } {
            Some(s) => s.as_bytes() == expect,
            None => false,
        },
        _ => false,
    }
}

/// WHERE: 0 = global, 1 = value stack. A string the program can still reach survives a
/// collection forced at any subset of the two allocations of a StringLiteral instruction.
pub fn rooted_string_survives<S: Src, const WHERE: u8>(s: &mut S) {
    let mut rig = rig();
    let b = [s.u8() & 0x7f, s.u8() & 0x7f];
    let st = unsafe { std::str::from_utf8_unchecked(&b) };
    let o = unguard(rig.vm.init_string(st).unwrap().into_inner());
    if WHERE == 0 {
        rig.vm.runtime_data.verif_globals().push(Value::Object(o));
    } else {
        rig.push(Value::Object(o));
    }
    encode_str("cd", &mut rig.prog.data);
    let mut a = Asm::new();
    a.op(op::STRING_LITERAL).u32(0).exit();
    let mask = s.below(4) as u64;
    set_gc_schedule(mask);
    let (res, _) = rig.run(a);
    set_gc_schedule(0);
    assert!(res.is_ok(), "C02.fragment.succeeds_under_every_schedule");
    let kept = if WHERE == 0 { rig.global(0).unwrap_or(Value::Nil) } else { rig.stack_get(0) };
    assert!(is_str(kept, &b), "C02.reachable_string_unchanged_by_collection");
    let top = rig.stack_get(rig.stack_len() - 1);
    assert!(is_str(top, b"cd"), "C02.fresh_string_survives_its_own_construction");
    assert!(rig.vm.runtime_data.verif_object_count() == 2, "C02.no_reachable_object_collected");
    std::mem::forget(rig);
    s.reached("c02.rooted_string_survives");
}

/// an unreachable string is collected by a forced collection (the schedule hook works)
pub fn unreachable_string_is_collected<S: Src>(s: &mut S) {
    let mut rig = rig();
    let b = [s.u8() & 0x7f];
    let st = unsafe { std::str::from_utf8_unchecked(&b) };
    let _o = unguard(rig.vm.init_string(st).unwrap().into_inner());
    let mut a = Asm::new();
    a.op(op::FUNCTION_POINTER).u32(1).u32(0).exit();
    set_gc_schedule(1);
    let (res, _) = rig.run(a);
    set_gc_schedule(0);
    assert!(res.is_ok(), "C02.fragment.succeeds_under_every_schedule");
    assert!(rig.vm.runtime_data.verif_object_count() == 1, "C02.unreachable_object_is_collected");
    std::mem::forget(rig);
    s.reached("c02.unreachable_string_is_collected");
}

/// a closure that is being executed (its frame is active, the value itself was popped by the
/// call) survives a collection inside its body
pub fn running_closure_survives<S: Src>(s: &mut S) {
    let mut rig = rig();
    let h = Handle::from_u32(7);
    let clo = unguard(rig.vm.init_closure(h, 0).unwrap().into_inner());
    rig.push(Value::Object(clo));
    let mut a = Asm::new();
    a.op(op::CALL_FUNCTION).exit();
    let fpos = a.pos();
    // body: allocate something, then use the closure (no upvalue 0 exists: InvalidUpvalue)
    a.op(op::FUNCTION_POINTER).u32(1).u32(0).op(op::READ_UPVALUE).u32(0).exit();
    rig.prog.labels.0.insert(h, Label::new(fpos as u32)).unwrap();
    let mask = s.below(2) as u64;
    set_gc_schedule(mask);
    let (res, _) = rig.run(a);
    set_gc_schedule(0);
    match &res {
        Err(e) => assert!(kind_of(&e.payload) == E_INVALID_UPVALUE, "C02.running_closure_usable_after_collection"),
        Ok(()) => assert!(false, "C02.running_closure_usable_after_collection"),
    }
    // the closure object is still registered (it is in use by the active frame)
    let mut found = false;
    let n = rig.vm.runtime_data.verif_object_count();
    let mut i = 0;
    while i < n && i < 4 {
        found |= rig.vm.runtime_data.verif_object(i) == Some(clo);
        i += 1;
    }
    assert!(found, "C02.closure_of_an_active_frame_is_not_collected");
    std::mem::forget(res);
    std::mem::forget(rig);
    s.reached("c02.running_closure_survives");
}

type V = Vm<'static, Option<[u8; 2]>>;

fn native_holding_arg(vm: &mut Vm<Option<[u8; 2]>>, a: Value) -> Result<Value, ExecutionErrorPayload> {
    // allocates while holding its (already popped) argument, then reads the argument
    let _f = vm.init_function(Handle::from_u32(1), 0)?;
    let expect = vm.get_aux().unwrap();
    let ok = match unsafe { a.as_str() } {
        Some(s) => s.as_bytes() == &expect[..],
        None => false,
    };
    Ok(Value::Integer(ok as i64))
}

/// a value a host function is in the middle of operating on survives a collection triggered by
/// the host function's own allocation
pub fn native_argument_survives<S: Src>(s: &mut S) {
    #[cfg(not(kani))]
    cao_lang::verif_hooks::set_quarantine(true);
    cao_lang::verif_hooks::set_skip_error_trace(true);
    let mut vm: V = Vm::verif_new_small(None, 1 << 16, 8, 4).unwrap();
    let mut prog = CaoCompiledProgram::default();
    vm.register_native_function("n", into_f1(native_holding_arg)).unwrap();
    let b = [s.u8() & 0x7f, s.u8() & 0x7f];
    *vm.get_aux_mut() = Some(b);
    let st = unsafe { std::str::from_utf8_unchecked(&b) };
    let o = unguard(vm.init_string(st).unwrap().into_inner());
    vm.stack_push(Value::Object(o)).unwrap();
    let hn = Handle::from_bytes(b"n");
    let mut a = Asm::new();
    a.op(op::CALL_NATIVE).bytes(bytemuck::bytes_of(&hn)).exit();
    prog.bytecode = a.bc;
    vm.runtime_data.verif_push_frame(0, 0, 0, None);
    vm.max_instr = 16;
    let mask = s.below(2) as u64;
    set_gc_schedule(mask);
    let (res, _) = vm.verif_run_from(&prog, 0);
    set_gc_schedule(0);
    assert!(res.is_ok(), "C02.fragment.succeeds_under_every_schedule");
    assert!(
        same(vm.runtime_data.verif_stack_get(0), Value::Integer(1)),
        "C02.host_function_argument_unchanged_by_collection"
    );
    std::mem::forget(res);
    std::mem::forget(vm);
    std::mem::forget(prog);
    s.reached("c02.native_argument_survives");
}

crate::harnesses! {
    #[kani::stub(alloc::fmt::format, crate::stub_format)]
    c02_string_in_global_survives / 18 => rooted_string_survives::<_, 0>;
    #[kani::stub(alloc::fmt::format, crate::stub_format)]
    c02_string_on_stack_survives / 18 => rooted_string_survives::<_, 1>;
    #[kani::stub(alloc::fmt::format, crate::stub_format)]
    c02_unreachable_string_is_collected / 18 => unreachable_string_is_collected;
    #[kani::stub(alloc::fmt::format, crate::stub_format)]
    c02_running_closure_survives / 18 => running_closure_survives;
    #[kani::stub(alloc::fmt::format, crate::stub_format)]
    c02_native_argument_survives / 18 => native_argument_survives;
}
