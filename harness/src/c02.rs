//! C02 — garbage collection never invalidates a value the program can still use.
//!
//! The `gc_requested` hook forces a collection at chosen allocation points; the schedule is a
//! solver-chosen bit mask over the fragment's allocations. Oracles: Kani's own pointer checks
//! (any access to a freed object anywhere in the fragment is a failure) plus a content audit of
//! the values that must survive. Natively (replay) freed objects are quarantined as tombstones,
//! so a stale read fails the audit deterministically.
use crate::vmh::*;
use crate::Src;
use cao_lang::compiled_program::Label;
use cao_lang::prelude::*;
use cao_lang::verif_hooks::{encode_str, set_gc_schedule};
use cao_lang::vm::runtime::cao_lang_object::{CaoLangObject, GcMarker};
use std::ptr::NonNull;

fn rig() -> Rig {
    #[cfg(not(kani))]
    cao_lang::verif_hooks::set_quarantine(true);
    Rig::new(8, 4, 1 << 16)
}

fn unguard(o: NonNull<CaoLangObject>) -> NonNull<CaoLangObject> {
    unsafe {
        (*o.as_ptr()).marker = GcMarker::White;
    }
    o
}

fn is_str(v: Value, expect: &[u8]) -> bool {
    match v {
        Value::Object(_) => match unsafe { v.as_str() } {
            Some(s) => s.as_bytes() == expect,
            None => false,
        },
        _ => false,
    }
}

/// WHERE: 0 = global, 1 = value stack. A string the program can still reach survives a
/// collection forced at any subset of the two allocations of a StringLiteral instruction.
pub fn rooted_string_survives<S: Src, const WHERE: u8>(s: &mut S) {
    let mut rig = rig();
    let b = [s.u8() & 0x7f, s.u8() & 0x7f];
    let st = unsafe { std::str::from_utf8_unchecked(&b) };
    let o = unguard(rig.vm.init_string(st).unwrap().into_inner());
    if WHERE == 0 {
        rig.vm.runtime_data.verif_globals().push(Value::Object(o));
    } else {
        rig.push(Value::Object(o));
    }
    encode_str("cd", &mut rig.prog.data);
    let mut a = Asm::new();
    a.op(op::STRING_LITERAL).u32(0).exit();
    let mask = s.below(4) as u64;
    set_gc_schedule(mask);
    let (res, _) = rig.run(a);
    set_gc_schedule(0);
    assert!(res.is_ok(), "C02.fragment.succeeds_under_every_schedule");
    let kept = if WHERE == 0 { rig.global(0).unwrap_or(Value::Nil) } else { rig.stack_get(0) };
    assert!(is_str(kept, &b), "C02.reachable_string_unchanged_by_collection");
    let top = rig.stack_get(rig.stack_len() - 1);
    assert!(is_str(top, b"cd"), "C02.fresh_string_survives_its_own_construction");
    assert!(rig.vm.runtime_data.verif_object_count() == 2, "C02.no_reachable_object_collected");
    std::mem::forget(rig);
    s.reached("c02.rooted_string_survives");
}

/// an unreachable string is collected by a forced collection (the schedule hook works)
pub fn unreachable_string_is_collected<S: Src>(s: &mut S) {
    let mut rig = rig();
    let b = [s.u8() & 0x7f];
    let st = unsafe { std::str::from_utf8_unchecked(&b) };
    let _o = unguard(rig.vm.init_string(st).unwrap().into_inner());
    let mut a = Asm::new();
    a.op(op::FUNCTION_POINTER).u32(1).u32(0).exit();
    set_gc_schedule(1);
    let (res, _) = rig.run(a);
    set_gc_schedule(0);
    assert!(res.is_ok(), "C02.fragment.succeeds_under_every_schedule");
    assert!(rig.vm.runtime_data.verif_object_count() == 1, "C02.unreachable_object_is_collected");
    std::mem::forget(rig);
    s.reached("c02.unreachable_string_is_collected");
}

/// a closure that is being executed (its frame is active, the value itself was popped by the
/// call) survives a collection inside its body
pub fn running_closure_survives<S: Src>(s: &mut S) {
    let mut rig = rig();
    let h = Handle::from_u32(7);
    let clo = unguard(rig.vm.init_closure(h, 0).unwrap().into_inner());
    rig.push(Value::Object(clo));
    let mut a = Asm::new();
    a.op(op::CALL_FUNCTION).exit();
    let fpos = a.pos();
    // body: allocate something, then use the closure (no upvalue 0 exists: InvalidUpvalue)
    a.op(op::FUNCTION_POINTER).u32(1).u32(0).op(op::READ_UPVALUE).u32(0).exit();
    rig.prog.labels.0.insert(h, Label::new(fpos as u32)).unwrap();
    let mask = s.below(2) as u64;
    set_gc_schedule(mask);
    let (res, _) = rig.run(a);
    set_gc_schedule(0);
    match &res {
        Err(e) => assert!(kind_of(&e.payload) == E_INVALID_UPVALUE, "C02.running_closure_usable_after_collection"),
        Ok(()) => assert!(false, "C02.running_closure_usable_after_collection"),
    }
    // the closure object is still registered (it is in use by the active frame)
    let mut found = false;
    let n = rig.vm.runtime_data.verif_object_count();
    let mut i = 0;
    while i < n && i < 4 {
        found |= rig.vm.runtime_data.verif_object(i) == Some(clo);
        i += 1;
    }
    assert!(found, "C02.closure_of_an_active_frame_is_not_collected");
    std::mem::forget(res);
    std::mem::forget(rig);
    s.reached("c02.running_closure_survives");
}

type V = Vm<'static, Option<[u8; 2]>>;

fn native_holding_arg(vm: &mut Vm<Option<[u8; 2]>>, a: Value) -> Result<Value, ExecutionErrorPayload> {
    // allocates while holding its (already popped) argument, then reads the argument
    let _f = vm.init_function(Handle::from_u32(1), 0)?;
    let expect = vm.get_aux().unwrap();
    let ok = match unsafe { a.as_str() } {
        Some(s) => s.as_bytes() == &expect[..],
        None => false,
    };
    Ok(Value::Integer(ok as i64))
}

/// a value a host function is in the middle of operating on survives a collection triggered by
/// the host function's own allocation
pub fn native_argument_survives<S: Src>(s: &mut S) {
    #[cfg(not(kani))]
    cao_lang::verif_hooks::set_quarantine(true);
    cao_lang::verif_hooks::set_skip_error_trace(true);
    let mut vm: V = Vm::verif_new_small(None, 1 << 16, 8, 4).unwrap();
    let mut prog = CaoCompiledProgram::default();
    vm.register_native_function("n", into_f1(native_holding_arg)).unwrap();
    let b = [s.u8() & 0x7f, s.u8() & 0x7f];
    *vm.get_aux_mut() = Some(b);
    let st = unsafe { std::str::from_utf8_unchecked(&b) };
    let o = unguard(vm.init_string(st).unwrap().into_inner());
    vm.stack_push(Value::Object(o)).unwrap();
    let hn = Handle::from_bytes(b"n");
    let mut a = Asm::new();
    a.op(op::CALL_NATIVE).bytes(bytemuck::bytes_of(&hn)).exit();
    prog.bytecode = a.bc;
    vm.runtime_data.verif_push_frame(0, 0, 0, None);
    vm.max_instr = 16;
    let mask = s.below(2) as u64;
    set_gc_schedule(mask);
    let (res, _) = vm.verif_run_from(&prog, 0);
    set_gc_schedule(0);
    assert!(res.is_ok(), "C02.fragment.succeeds_under_every_schedule");
    assert!(
        same(vm.runtime_data.verif_stack_get(0), Value::Integer(1)),
        "C02.host_function_argument_unchanged_by_collection"
    );
    std::mem::forget(res);
    std::mem::forget(vm);
    std::mem::forget(prog);
    s.reached("c02.native_argument_survives");
}


// ---------------------------------------------------------------------------------------------
// One collection from a constructed heap (function level: `RuntimeData::gc` called directly).
// Where each object is rooted is solver-chosen; the oracle is reachability written from the
// property text: an object survives iff it is reachable from the value stack or a global, and a
// survivor's content is unchanged.

fn registered(rig: &mut Rig, o: NonNull<CaoLangObject>) -> bool {
    let n = rig.vm.runtime_data.verif_object_count();
    let mut i = 0;
    let mut found = false;
    while i < n && i < 6 {
        found |= rig.vm.runtime_data.verif_object(i) == Some(o);
        i += 1;
    }
    found
}

/// root: bit 0 = value stack, bit 1 = global
fn root(rig: &mut Rig, o: NonNull<CaoLangObject>, how: u8) {
    if how & 1 != 0 {
        rig.push(Value::Object(o));
    }
    if how & 2 != 0 {
        rig.vm.runtime_data.verif_globals().push(Value::Object(o));
    }
}

fn white(o: NonNull<CaoLangObject>) -> bool {
    matches!(unsafe { &(*o.as_ptr()).marker }, GcMarker::White)
}

pub fn gc_step_strings<S: Src>(s: &mut S) {
    let mut rig = rig();
    let b0 = [s.u8() & 0x7f];
    let b1 = [s.u8() & 0x7f];
    let o0 = unguard(rig.vm.init_string(unsafe { std::str::from_utf8_unchecked(&b0) }).unwrap().into_inner());
    let o1 = unguard(rig.vm.init_string(unsafe { std::str::from_utf8_unchecked(&b1) }).unwrap().into_inner());
    let r0 = s.below(4);
    let r1 = s.below(4);
    // an unrelated scalar between them on the stack
    root(&mut rig, o0, r0);
    rig.push(Value::Integer(5));
    root(&mut rig, o1, r1);
    rig.vm.runtime_data.gc();
    let expect = (r0 != 0) as usize + (r1 != 0) as usize;
    assert!(rig.vm.runtime_data.verif_object_count() == expect, "C02.gc.exactly_the_unreachable_objects_are_collected");
    if r0 != 0 {
        assert!(registered(&mut rig, o0), "C02.gc.reachable_object_is_kept");
        assert!(is_str(Value::Object(o0), &b0), "C02.reachable_string_unchanged_by_collection");
        assert!(white(o0), "C02.gc.survivor_is_unmarked_for_the_next_cycle");
    }
    if r1 != 0 {
        assert!(registered(&mut rig, o1), "C02.gc.reachable_object_is_kept");
        assert!(is_str(Value::Object(o1), &b1), "C02.reachable_string_unchanged_by_collection");
        assert!(white(o1), "C02.gc.survivor_is_unmarked_for_the_next_cycle");
    }
    std::mem::forget(rig);
    s.reached("c02.gc_step_strings");
}

/// a table holding a string under key 1 (and, solver-chosen, holding itself under key 2: a cycle);
/// the string survives iff the table or the string itself is rooted
pub fn gc_step_table<S: Src>(s: &mut S) {
    let mut rig = rig();
    let b0 = [s.u8() & 0x7f];
    let o0 = unguard(rig.vm.init_string(unsafe { std::str::from_utf8_unchecked(&b0) }).unwrap().into_inner());
    let t = unguard(rig.vm.init_table().unwrap().into_inner());
    let cyc = s.bool();
    unsafe {
        let tab = (*t.as_ptr()).as_table_mut().unwrap();
        tab.insert(Value::Integer(1), Value::Object(o0)).unwrap();
        if cyc {
            tab.insert(Value::Integer(2), Value::Object(t)).unwrap();
        }
    }
    let rt = s.below(4);
    let r0 = s.below(4);
    root(&mut rig, t, rt);
    root(&mut rig, o0, r0);
    rig.vm.runtime_data.gc();
    let t_alive = rt != 0;
    let s_alive = t_alive || r0 != 0;
    assert!(
        rig.vm.runtime_data.verif_object_count() == t_alive as usize + s_alive as usize,
        "C02.gc.exactly_the_unreachable_objects_are_collected"
    );
    if t_alive {
        assert!(registered(&mut rig, t), "C02.gc.reachable_object_is_kept");
        let tab = unsafe { (*t.as_ptr()).as_table().unwrap() };
        assert!(tab.len() == 1 + cyc as usize, "C02.reachable_table_unchanged_by_collection");
        let v = tab.get(&Value::Integer(1)).copied().unwrap_or(Value::Nil);
        assert!(is_str(v, &b0), "C02.value_held_by_a_reachable_table_survives");
        assert!(white(t), "C02.gc.survivor_is_unmarked_for_the_next_cycle");
    }
    if s_alive {
        assert!(registered(&mut rig, o0), "C02.gc.reachable_object_is_kept");
        assert!(is_str(Value::Object(o0), &b0), "C02.reachable_string_unchanged_by_collection");
        assert!(white(o0), "C02.gc.survivor_is_unmarked_for_the_next_cycle");
    }
    std::mem::forget(rig);
    s.reached("c02.gc_step_table");
}

/// a closure with one closed upvalue holding a string: all three survive iff the closure is
/// rooted (the string also if it is rooted itself)
pub fn gc_step_closure<S: Src>(s: &mut S) {
    use cao_lang::vm::runtime::cao_lang_object::CaoLangObjectBody;
    let mut rig = rig();
    let b0 = [s.u8() & 0x7f];
    let o0 = unguard(rig.vm.init_string(unsafe { std::str::from_utf8_unchecked(&b0) }).unwrap().into_inner());
    let up = unguard(rig.vm.runtime_data.init_upvalue(std::ptr::null_mut()).unwrap().into_inner());
    let clo = unguard(rig.vm.init_closure(Handle::from_u32(3), 0).unwrap().into_inner());
    unsafe {
        if let CaoLangObjectBody::Upvalue(u) = &mut (*up.as_ptr()).body {
            u.value = Value::Object(o0);
            u.location = &mut u.value as *mut Value;
        }
        if let CaoLangObjectBody::Closure(c) = &mut (*clo.as_ptr()).body {
            c.upvalues.push(up);
        }
    }
    let rc = s.below(4);
    let r0 = s.below(4);
    root(&mut rig, clo, rc);
    root(&mut rig, o0, r0);
    rig.vm.runtime_data.gc();
    let c_alive = rc != 0;
    let s_alive = c_alive || r0 != 0;
    assert!(
        rig.vm.runtime_data.verif_object_count() == 2 * c_alive as usize + s_alive as usize,
        "C02.gc.exactly_the_unreachable_objects_are_collected"
    );
    if c_alive {
        assert!(registered(&mut rig, clo), "C02.gc.reachable_object_is_kept");
        assert!(registered(&mut rig, up), "C02.variable_captured_by_a_reachable_closure_survives");
        let v = unsafe {
            match &(*up.as_ptr()).body {
                CaoLangObjectBody::Upvalue(u) => *u.location,
                _ => Value::Nil,
            }
        };
        assert!(is_str(v, &b0), "C02.variable_captured_by_a_reachable_closure_survives");
        assert!(white(clo) && white(up), "C02.gc.survivor_is_unmarked_for_the_next_cycle");
    }
    if s_alive {
        assert!(registered(&mut rig, o0), "C02.gc.reachable_object_is_kept");
        assert!(is_str(Value::Object(o0), &b0), "C02.reachable_string_unchanged_by_collection");
    }
    std::mem::forget(rig);
    s.reached("c02.gc_step_closure");
}

/// StringLiteral executed directly (no dispatch loop) with a collection forced at any subset of
/// its two allocations while another string is rooted (solver-chosen where)
pub fn string_literal_under_gc<S: Src>(s: &mut S) {
    let mut rig = rig();
    let b = [s.u8() & 0x7f];
    let o = unguard(rig.vm.init_string(unsafe { std::str::from_utf8_unchecked(&b) }).unwrap().into_inner());
    let r = 1 + s.below(3);
    root(&mut rig, o, r);
    encode_str("cd", &mut rig.prog.data);
    rig.prog.bytecode.extend_from_slice(&0u32.to_le_bytes());
    let mask = s.below(4) as u64;
    set_gc_schedule(mask);
    let mut ip = 0usize;
    let prog = std::mem::take(&mut rig.prog);
    let res = cao_lang::verif_hooks::instr::instr_string_literal(&mut rig.vm, &mut ip, &prog);
    set_gc_schedule(0);
    assert!(res.is_ok(), "C02.fragment.succeeds_under_every_schedule");
    assert!(registered(&mut rig, o), "C02.gc.reachable_object_is_kept");
    assert!(is_str(Value::Object(o), &b), "C02.reachable_string_unchanged_by_collection");
    let top = rig.stack_get(rig.stack_len() - 1);
    assert!(is_str(top, b"cd"), "C02.fresh_string_survives_its_own_construction");
    assert!(rig.vm.runtime_data.verif_object_count() == 2, "C02.no_reachable_object_collected");
    std::mem::forget(res);
    std::mem::forget(prog);
    std::mem::forget(rig);
    s.reached("c02.string_literal_under_gc");
}

crate::harnesses! {
    #[kani::stub(alloc::fmt::format, crate::stub_format)]
    c02_string_in_global_survives / 18 => rooted_string_survives::<_, 0>;
    #[kani::stub(alloc::fmt::format, crate::stub_format)]
    c02_string_on_stack_survives / 18 => rooted_string_survives::<_, 1>;
    #[kani::stub(alloc::fmt::format, crate::stub_format)]
    c02_unreachable_string_is_collected / 18 => unreachable_string_is_collected;
    #[kani::stub(alloc::fmt::format, crate::stub_format)]
    c02_running_closure_survives / 18 => running_closure_survives;
    #[kani::stub(alloc::fmt::format, crate::stub_format)]
    c02_native_argument_survives / 18 => native_argument_survives;
    #[kani::stub(alloc::fmt::format, crate::stub_format)]
    c02_gc_step_strings / 8 => gc_step_strings;
    #[kani::stub(alloc::fmt::format, crate::stub_format)]
    c02_gc_step_table / 10 => gc_step_table;
    #[kani::stub(alloc::fmt::format, crate::stub_format)]
    c02_gc_step_closure / 8 => gc_step_closure;
    #[kani::stub(alloc::fmt::format, crate::stub_format)]
    c02_string_literal_under_gc / 8 => string_literal_under_gc;
}
