//! C03 — the instruction budget bounds every run.
//!
//! Dispatch counter hook in the interpreter loop; budgets are solver-chosen in a small range.
use crate::vmh::*;
use crate::Src;
use cao_lang::compiled_program::Label;
use cao_lang::prelude::*;
use cao_lang::verif_hooks::{dispatch_count, reset_dispatch_count};

/// an endless loop under budget N in 1..=5: at most N instructions, then Timeout
pub fn endless_loop<S: Src>(s: &mut S) {
    let mut rig = Rig::new(8, 4, 1 << 16);
    let n = 1 + s.below(5) as u64;
    rig.vm.max_instr = n;
    let mut a = Asm::new();
    a.op(op::GOTO).i32(0);
    a.exit();
    reset_dispatch_count();
    let (res, _) = rig.run(a);
    match &res {
        Ok(()) => assert!(false, "C03.loop.endless_loop_times_out"),
        Err(e) => assert!(kind_of(&e.payload) == E_TIMEOUT, "C03.loop.exhausted_budget_is_timeout"),
    }
    assert!(dispatch_count() <= n, "C03.budget.at_most_n_instructions");
    std::mem::forget(res);
    std::mem::forget(rig);
    s.reached("c03.endless_loop");
}

/// a program needing 3 instructions is unaffected by any sufficient budget
pub fn sufficient_budget<S: Src>(s: &mut S) {
    let mut rig = Rig::new(8, 4, 1 << 16);
    let n = 4 + s.below(4) as u64;
    let x = s.i64();
    rig.vm.max_instr = n;
    let mut a = Asm::new();
    a.int(x).set_global(0).exit();
    reset_dispatch_count();
    let (res, _) = rig.run(a);
    assert!(res.is_ok(), "C03.budget.sufficient_budget_does_not_affect_the_result");
    assert!(same(rig.global(0).unwrap_or(Value::Nil), Value::Integer(x)), "C03.budget.result_independent_of_budget");
    assert!(dispatch_count() == 3 && dispatch_count() <= n, "C03.budget.at_most_n_instructions");
    std::mem::forget(rig);
    s.reached("c03.sufficient_budget");
}

type V = Vm<'static, Option<Value>>;

fn n0_reenter(vm: &mut Vm<Option<Value>>) -> Result<Value, ExecutionErrorPayload> {
    let f = vm.get_aux().unwrap();
    vm.run_function(f)
}

/// a native re-enters the interpreter on a script function that loops forever: the instructions
/// executed inside count against the budget of the run
pub fn nested_budget<S: Src>(s: &mut S) {
    cao_lang::verif_hooks::set_skip_error_trace(true);
    let mut vm: V = Vm::verif_new_small(None, 1 << 16, 8, 6).unwrap();
    let mut prog = CaoCompiledProgram::default();
    vm.register_native_function("r", n0_reenter).unwrap();
    let n = 3 + s.below(3) as u64;
    let h = Handle::from_u32(5);
    let hn = Handle::from_bytes(b"r");
    let mut a = Asm::new();
    // two instructions of the outer run are already spent when the native is entered
    a.op(op::SCALAR_NIL).op(op::POP);
    a.op(op::CALL_NATIVE).bytes(bytemuck::bytes_of(&hn)).exit();
    let fpos = a.pos();
    a.op(op::GOTO).i32(fpos as i32);
    a.exit();
    prog.bytecode = a.bc;
    prog.labels.0.insert(h, Label::new(fpos as u32)).unwrap();
    let fobj = vm.init_function(h, 0).unwrap().into_inner();
    *vm.get_aux_mut() = Some(Value::Object(fobj));
    vm.runtime_data.verif_push_frame(0, 0, 0, None);
    vm.max_instr = n;
    reset_dispatch_count();
    let (res, _) = vm.verif_run_from(&prog, 0);
    assert!(res.is_err(), "C03.nested.endless_callback_times_out");
    assert!(dispatch_count() <= n, "C03.nested.callback_instructions_count_against_the_run_budget");
    std::mem::forget(res);
    std::mem::forget(vm);
    std::mem::forget(prog);
    s.reached("c03.nested_budget");
}

/// `Vm::run_function` (what a native calls to re-enter the interpreter) entered while the
/// enclosing run has R instructions left (configured budget 4): the callback loops forever and
/// may execute at most R instructions - the nested run must draw on the run's remaining budget
pub fn run_function_budget<S: Src>(s: &mut S) {
    let mut rig = Rig::new(8, 4, 1 << 16);
    let h = Handle::from_u32(5);
    let mut a = Asm::new();
    a.op(op::GOTO).i32(0);
    a.exit();
    rig.prog.bytecode = a.bc;
    rig.prog.labels.0.insert(h, Label::new(0)).unwrap();
    let f = rig.vm.init_function(h, 0).unwrap().into_inner();
    let prog: *const CaoCompiledProgram = &rig.prog;
    rig.vm.verif_set_program(prog);
    rig.vm.max_instr = 4;
    let r = 1 + s.below(3) as u64;
    rig.vm.remaining_iters = r;
    reset_dispatch_count();
    let res = rig.vm.run_function(Value::Object(f));
    match &res {
        Ok(_) => assert!(false, "C03.nested.endless_callback_times_out"),
        Err(e) => assert!(kind_of(e) == E_TIMEOUT, "C03.nested.endless_callback_times_out"),
    }
    assert!(dispatch_count() <= r, "C03.nested.callback_instructions_count_against_the_run_budget");
    std::mem::forget(res);
    std::mem::forget(rig);
    s.reached("c03.run_function_budget");
}

/// `Vm::run_function` on a script function that returns at once, entered with R instructions left:
/// afterwards exactly the instructions the callback executed are gone from the run's budget
/// (a nested run that re-armed the budget would leave more than R)
pub fn run_function_draws_on_the_run_budget<S: Src>(s: &mut S) {
    let mut rig = Rig::new(8, 4, 1 << 16);
    let h = Handle::from_u32(5);
    let mut a = Asm::new();
    a.op(op::SCALAR_NIL).op(op::RETURN);
    a.exit();
    rig.prog.bytecode = a.bc;
    rig.prog.labels.0.insert(h, Label::new(0)).unwrap();
    let f = rig.vm.init_function(h, 0).unwrap().into_inner();
    let prog: *const CaoCompiledProgram = &rig.prog;
    rig.vm.verif_set_program(prog);
    rig.vm.max_instr = 64;
    let r = 5 + s.below(4) as u64;
    rig.vm.remaining_iters = r;
    reset_dispatch_count();
    let res = rig.vm.run_function(Value::Object(f));
    assert!(res.is_ok(), "C03.nested.callback_within_budget_completes");
    let d = dispatch_count();
    assert!(d >= 2 && d <= 3, "C03.nested.callback_instruction_count");
    assert!(rig.vm.remaining_iters <= r - d, "C03.nested.callback_instructions_count_against_the_run_budget");
    std::mem::forget(res);
    std::mem::forget(rig);
    s.reached("c03.run_function_draws_on_the_run_budget");
}

/// `Vm::run_function` on a script function whose body is the single instruction `Exit`, entered
/// with R instructions left of a configured budget M (both solver-chosen): the callback costs
/// exactly one instruction of the *run's* budget. A nested run that re-armed the budget from
/// `max_instr` would leave M - 1 instead of R - 1.
pub fn run_function_exit_only<S: Src>(s: &mut S) {
    let mut rig = Rig::new(8, 4, 1 << 16);
    let h = Handle::from_u32(5);
    let mut a = Asm::new();
    a.exit();
    rig.prog.bytecode = a.bc;
    rig.prog.labels.0.insert(h, Label::new(0)).unwrap();
    let f = rig.vm.init_function(h, 0).unwrap().into_inner();
    let prog: *const CaoCompiledProgram = &rig.prog;
    rig.vm.verif_set_program(prog);
    let m = s.u32() as u64;
    let r = s.u32() as u64;
    s.assume(r >= 2 && r <= m);
    rig.vm.max_instr = m;
    rig.vm.remaining_iters = r;
    reset_dispatch_count();
    let res = rig.vm.run_function(Value::Object(f));
    assert!(res.is_ok(), "C03.nested.callback_within_budget_completes");
    assert!(dispatch_count() == 1, "C03.nested.callback_instruction_count");
    assert!(rig.vm.remaining_iters == r - 1, "C03.nested.callback_instructions_count_against_the_run_budget");
    std::mem::forget(res);
    std::mem::forget(rig);
    s.reached("c03.run_function_exit_only");
}

/// the same with one instruction left: the callback's first instruction is the one that times out
pub fn run_function_exit_only_exhausted<S: Src>(s: &mut S) {
    let mut rig = Rig::new(8, 4, 1 << 16);
    let h = Handle::from_u32(5);
    let mut a = Asm::new();
    a.exit();
    rig.prog.bytecode = a.bc;
    rig.prog.labels.0.insert(h, Label::new(0)).unwrap();
    let f = rig.vm.init_function(h, 0).unwrap().into_inner();
    let prog: *const CaoCompiledProgram = &rig.prog;
    rig.vm.verif_set_program(prog);
    let m = s.u32() as u64;
    s.assume(m >= 1);
    let r = s.below(2) as u64;
    rig.vm.max_instr = m;
    rig.vm.remaining_iters = r;
    reset_dispatch_count();
    let res = rig.vm.run_function(Value::Object(f));
    match &res {
        Ok(_) => assert!(false, "C03.nested.exhausted_budget_is_timeout"),
        Err(e) => assert!(kind_of(e) == E_TIMEOUT, "C03.nested.exhausted_budget_is_timeout"),
    }
    assert!(dispatch_count() == 0, "C03.nested.callback_instructions_count_against_the_run_budget");
    std::mem::forget(res);
    std::mem::forget(rig);
    s.reached("c03.run_function_exit_only_exhausted");
}

crate::harnesses! {
    #[kani::stub(alloc::fmt::format, crate::stub_format)]
    c03_run_function_exit_only / 18 => run_function_exit_only;
    #[kani::stub(alloc::fmt::format, crate::stub_format)]
    c03_run_function_exit_only_exhausted / 18 => run_function_exit_only_exhausted;
    #[kani::stub(alloc::fmt::format, crate::stub_format)]
    c03_run_function_draws_on_the_run_budget / 18 => run_function_draws_on_the_run_budget;
    #[kani::stub(alloc::fmt::format, crate::stub_format)]
    c03_run_function_budget / 18 => run_function_budget;
    #[kani::stub(alloc::fmt::format, crate::stub_format)]
    c03_endless_loop / 18 => endless_loop;
    #[kani::stub(alloc::fmt::format, crate::stub_format)]
    c03_sufficient_budget / 18 => sufficient_budget;
    #[kani::stub(alloc::fmt::format, crate::stub_format)]
    c03_nested_budget / 18 => nested_budget;
}
