//! replay <harness> <hex,hex,...>   (each hex group = the bytes of one nondeterministic value)
//! exit 0: harness body ran to completion; 101: an assertion/panic fired (the violation
//! reproduces); 3: the recorded values do not fit the harness; 4: unknown harness.
use cao_verif::*;

fn main() {
    let args: Vec<String> = std::env::args().collect();
    if args.get(1).map(|s| s.as_str()) == Some("--sizes") {
        println!(
            "CaoLangObject={} align={}",
            std::mem::size_of::<cao_lang::vm::runtime::cao_lang_object::CaoLangObject>(),
            std::mem::align_of::<cao_lang::vm::runtime::cao_lang_object::CaoLangObject>()
        );
        return;
    }
    if args.len() < 2 {
        eprintln!("usage: replay <harness> [hex,hex,...]");
        std::process::exit(4);
    }
    let vals: Vec<Vec<u8>> = match args.get(2) {
        Some(s) if !s.is_empty() => s
            .split(',')
            .map(|g| {
                (0..g.len() / 2)
                    .map(|i| u8::from_str_radix(&g[2 * i..2 * i + 2], 16).unwrap())
                    .collect()
            })
            .collect(),
        _ => vec![],
    };
    for (name, f) in registry() {
        if name == args[1] {
            let mut s = BytesSrc::new(vals);
            f(&mut s);
            println!("REPLAY-COMPLETED exhausted={}", s.exhausted);
            return;
        }
    }
    eprintln!("unknown harness {}", args[1]);
    std::process::exit(4);
}
