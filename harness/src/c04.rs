//! C04 — running is total: errors are values, never crashes or hangs (VM side; `compile` cannot
//! be executed symbolically, DESIGN §0/§4).
//!
//! Every harness in this crate runs with Kani's panic / overflow / bounds / unwrap checks on, so
//! each of them is also a totality proof for the code it drives; the harnesses here aim at the
//! resource limits and wrong-kind operands specifically.
use crate::vmh::*;
use crate::Src;
use cao_lang::compiled_program::Label;
use cao_lang::prelude::*;

fn arith_op(sel: u8) -> u8 {
    match sel {
        0 => op::ADD,
        1 => op::SUB,
        2 => op::MUL,
        _ => op::DIV,
    }
}

/// full-range integers through Add/Sub/Mul/Div: Ok (a defined result), never a panic
pub fn vm_arith_full_range<S: Src, const SEL: u8>(s: &mut S) {
    let mut rig = Rig::new(8, 4, 1 << 16);
    let x = s.i64();
    let y = s.i64();
    let mut a = Asm::new();
    a.int(x).int(y).op(arith_op(SEL)).exit();
    let (res, _) = rig.run(a);
    assert!(res.is_ok(), "C04.arith.integer_overflow_is_a_defined_result");
    assert!(rig.stack_len() == 1, "C04.arith.result_on_stack");
    std::mem::forget(rig);
    s.reached("c04.vm_arith_full_range");
}

fn is_err_kind(res: &ExecutionResult<()>, k: u8) -> bool {
    match res {
        Ok(()) => false,
        Err(e) => kind_of(&e.payload) == k,
    }
}

/// pushing instruction on a full value stack of capacity CAP (holds CAP-1 values): the
/// corresponding error, never a panic. WHICH selects the pushing instruction.
pub fn vm_stack_exhaustion<S: Src, const CAP: usize, const WHICH: u8>(s: &mut S) {
    let mut rig = Rig::new(CAP, 4, 1 << 16);
    let v = s.i64();
    let mut k = 0;
    while k + 1 < CAP {
        rig.push(Value::Integer(v));
        k += 1;
    }
    let mut a = Asm::new();
    match WHICH {
        0 => {
            a.int(v);
        }
        1 => {
            a.op(op::SCALAR_NIL);
        }
        2 => {
            a.op(op::COPY_LAST);
        }
        3 => {
            a.read_local(0);
        }
        4 => {
            a.real(1.5);
        }
        5 => {
            a.op(op::INIT_TABLE);
        }
        6 => {
            a.op(op::FUNCTION_POINTER).u32(1).u32(0);
        }
        7 => {
            a.op(op::CLOSURE).u32(1).u32(0);
        }
        _ => {
            a.read_global(0);
        }
    }
    a.exit();
    if WHICH == 8 {
        rig.vm.runtime_data.verif_globals().push(Value::Integer(v));
    }
    let (res, _) = rig.run(a);
    assert!(is_err_kind(&res, E_STACKOVERFLOW), "C04.stack.full_value_stack_is_reported_as_stackoverflow");
    assert!(rig.stack_len() == CAP - 1, "C04.stack.contents_unchanged_by_failed_push");
    std::mem::forget(res);
    std::mem::forget(rig);
    s.reached("c04.vm_stack_exhaustion");
}

/// FunctionPointer / Closure allocate an object and then fail to push it on a full stack; the
/// VM must stay usable: clearing it afterwards must not touch freed memory, and the accounted
/// memory returns to zero
pub fn vm_failed_push_then_clear<S: Src, const WHICH: u8>(s: &mut S) {
    let mut rig = Rig::new(3, 4, 1 << 16);
    let v = s.i64();
    rig.push(Value::Integer(v));
    rig.push(Value::Integer(v));
    let mut a = Asm::new();
    if WHICH == 0 {
        a.op(op::FUNCTION_POINTER).u32(1).u32(0);
    } else {
        a.op(op::CLOSURE).u32(1).u32(0);
    }
    a.exit();
    let (res, _) = rig.run(a);
    assert!(is_err_kind(&res, E_STACKOVERFLOW), "C04.stack.full_value_stack_is_reported_as_stackoverflow");
    std::mem::forget(res);
    rig.vm.clear();
    assert!(rig.vm.runtime_data.verif_object_count() == 0, "C04.clear.no_objects_left");
    let (allocated, _, _) = rig.vm.runtime_data.verif_memory();
    assert!(allocated == 0, "C04.clear.accounted_memory_is_zero_after_failed_push");
    std::mem::forget(rig);
    s.reached("c04.vm_failed_push_then_clear");
}

/// SwapLast / Not / binary operators near the capacity limit and on short stacks
pub fn vm_stack_edges<S: Src, const CAP: usize, const FILL: usize, const WHICH: u8>(s: &mut S) {
    let mut rig = Rig::new(CAP, 4, 1 << 16);
    let v = s.i64();
    let mut k = 0;
    while k < FILL {
        rig.push(Value::Integer(v));
        k += 1;
    }
    let mut a = Asm::new();
    match WHICH {
        0 => a.op(op::SWAP_LAST),
        1 => a.op(op::NOT),
        2 => a.op(op::ADD),
        3 => a.op(op::POP),
        _ => a.op(op::LESS),
    };
    a.exit();
    let (res, _) = rig.run(a);
    // whatever the outcome, it is Ok or an error value
    match &res {
        Ok(()) => {}
        Err(e) => assert!(kind_of(&e.payload) == E_STACKOVERFLOW, "C04.stack.edge_error_kind"),
    }
    std::mem::forget(res);
    std::mem::forget(rig);
    s.reached("c04.vm_stack_edges");
}

/// a call when the call stack is full: CallStackOverflow
pub fn vm_call_stack_exhaustion<S: Src, const CALLS: usize>(s: &mut S) {
    let mut rig = Rig::new(8, CALLS, 1 << 16);
    // the rig pushed the base frame; fill up to capacity
    let mut d = 1;
    while d < CALLS {
        let ok = rig.vm.runtime_data.verif_push_frame(0, 0, 0, None);
        assert!(ok, "harness.frame");
        d += 1;
    }
    let x = s.i64();
    rig.push(Value::Integer(x));
    let h = Handle::from_u32(3);
    let mut a = Asm::new();
    a.op(op::FUNCTION_POINTER).bytes(bytemuck::bytes_of(&h)).u32(1);
    a.op(op::CALL_FUNCTION);
    a.exit();
    let fpos = a.pos();
    a.op(op::SCALAR_NIL).op(op::RETURN);
    rig.prog.labels.0.insert(h, Label::new(fpos as u32)).unwrap();
    let (res, _) = rig.run(a);
    assert!(is_err_kind(&res, E_CALLSTACKOVERFLOW), "C04.calls.full_call_stack_is_reported_as_callstackoverflow");
    std::mem::forget(res);
    std::mem::forget(rig);
    s.reached("c04.vm_call_stack_exhaustion");
}

/// instructions applied to a value of the wrong kind: InvalidArgument (or a defined result)
pub fn vm_wrong_kind<S: Src, const WHICH: u8>(s: &mut S) {
    let mut rig = Rig::new(8, 4, 1 << 16);
    let x = s.i64();
    let y = s.i64();
    rig.push(Value::Integer(x));
    rig.push(Value::Integer(y));
    let mut a = Asm::new();
    let expect = match WHICH {
        0 => {
            a.op(op::CALL_FUNCTION);
            Some(E_INVALID_ARG)
        }
        1 => {
            a.op(op::GET_PROPERTY);
            Some(E_INVALID_ARG)
        }
        2 => {
            a.op(op::APPEND_TABLE);
            Some(E_INVALID_ARG)
        }
        3 => {
            a.op(op::POP_TABLE);
            Some(E_INVALID_ARG)
        }
        4 => {
            a.op(op::NTH_ROW);
            Some(E_INVALID_ARG)
        }
        5 => {
            a.op(op::READ_UPVALUE).u32(0);
            Some(E_NOT_CLOSURE)
        }
        6 => {
            a.op(op::SET_UPVALUE).u32(0);
            Some(E_NOT_CLOSURE)
        }
        7 => {
            a.op(op::LEN);
            None
        }
        _ => {
            a.op(op::RETURN);
            Some(E_BAD_RETURN)
        }
    };
    a.exit();
    let (res, _) = rig.run(a);
    match expect {
        Some(k) => assert!(is_err_kind(&res, k), "C04.kind.wrong_kind_operand_is_reported_as_error"),
        None => assert!(res.is_ok(), "C04.kind.len_of_a_number_is_defined"),
    }
    std::mem::forget(res);
    std::mem::forget(rig);
    s.reached("c04.vm_wrong_kind");
}

/// instruction budget including 0 and 1: Timeout, never an arithmetic panic
pub fn vm_tiny_budget<S: Src>(s: &mut S) {
    let mut rig = Rig::new(8, 4, 1 << 16);
    let n = s.below(4) as u64;
    rig.vm.max_instr = n;
    let mut a = Asm::new();
    a.op(op::SCALAR_NIL).op(op::POP).exit();
    let (res, _) = rig.run(a);
    if n < 3 {
        // three instructions cannot run under a budget below three
        assert!(is_err_kind(&res, E_TIMEOUT), "C04.budget.exhausted_budget_is_timeout");
    } else if let Err(e) = &res {
        assert!(kind_of(&e.payload) == E_TIMEOUT, "C04.budget.only_timeout_under_a_tight_budget");
    }
    std::mem::forget(res);
    std::mem::forget(rig);
    s.reached("c04.vm_tiny_budget");
}

/// memory limit LIMIT (concrete) against allocating instructions: OutOfMemory, never a panic
pub fn vm_memory_limit<S: Src, const LIMIT: usize, const WHICH: u8>(s: &mut S) {
    let mut rig = Rig::new(8, 4, LIMIT);
    let mut a = Asm::new();
    match WHICH {
        0 => {
            a.op(op::INIT_TABLE);
        }
        1 => {
            a.op(op::FUNCTION_POINTER).u32(1).u32(0);
        }
        _ => {
            a.op(op::CLOSURE).u32(1).u32(0);
        }
    }
    a.exit();
    let (res, _) = rig.run(a);
    match &res {
        Ok(()) => {
            let (allocated, _, limit) = rig.vm.runtime_data.verif_memory();
            assert!(allocated <= limit, "C04.memory.success_stays_within_limit");
        }
        Err(e) => assert!(kind_of(&e.payload) == E_OOM, "C04.memory.exhaustion_is_reported_as_out_of_memory"),
    }
    let _ = s.u8();
    std::mem::forget(res);
    std::mem::forget(rig);
    s.reached("c04.vm_memory_limit");
}

crate::harnesses! {
    #[kani::stub(alloc::fmt::format, crate::stub_format)]
    c04_arith_full_add / 14 => vm_arith_full_range::<_, 0>;
    #[kani::stub(alloc::fmt::format, crate::stub_format)]
    c04_arith_full_sub / 14 => vm_arith_full_range::<_, 1>;
    #[kani::stub(alloc::fmt::format, crate::stub_format)]
    c04_arith_full_mul / 14 => vm_arith_full_range::<_, 2>;
    #[kani::stub(alloc::fmt::format, crate::stub_format)]
    c04_arith_full_div / 14 => vm_arith_full_range::<_, 3>;
    #[kani::stub(alloc::fmt::format, crate::stub_format)]
    c04_stack_full_c3_scalar_int / 14 => vm_stack_exhaustion::<_, 3, 0>;
    #[kani::stub(alloc::fmt::format, crate::stub_format)]
    c04_stack_full_c3_scalar_nil / 14 => vm_stack_exhaustion::<_, 3, 1>;
    #[kani::stub(alloc::fmt::format, crate::stub_format)]
    c04_stack_full_c3_copy_last / 14 => vm_stack_exhaustion::<_, 3, 2>;
    #[kani::stub(alloc::fmt::format, crate::stub_format)]
    c04_stack_full_c3_read_local / 14 => vm_stack_exhaustion::<_, 3, 3>;
    #[kani::stub(alloc::fmt::format, crate::stub_format)]
    c04_stack_full_c2_scalar_float / 14 => vm_stack_exhaustion::<_, 2, 4>;
    #[kani::stub(alloc::fmt::format, crate::stub_format)]
    c04_stack_full_c3_init_table / 14 => vm_stack_exhaustion::<_, 3, 5>;
    #[kani::stub(alloc::fmt::format, crate::stub_format)]
    c04_stack_full_c3_function_pointer / 14 => vm_stack_exhaustion::<_, 3, 6>;
    #[kani::stub(alloc::fmt::format, crate::stub_format)]
    c04_stack_full_c3_closure / 14 => vm_stack_exhaustion::<_, 3, 7>;
    #[kani::stub(alloc::fmt::format, crate::stub_format)]
    c04_stack_full_c4_read_global / 14 => vm_stack_exhaustion::<_, 4, 8>;
    #[kani::stub(alloc::fmt::format, crate::stub_format)]
    c04_failed_push_then_clear_function / 14 => vm_failed_push_then_clear::<_, 0>;
    #[kani::stub(alloc::fmt::format, crate::stub_format)]
    c04_failed_push_then_clear_closure / 14 => vm_failed_push_then_clear::<_, 1>;
    #[kani::stub(alloc::fmt::format, crate::stub_format)]
    c04_stack_edge_c2_swap_one / 14 => vm_stack_edges::<_, 2, 1, 0>;
    #[kani::stub(alloc::fmt::format, crate::stub_format)]
    c04_stack_edge_c3_swap_two / 14 => vm_stack_edges::<_, 3, 2, 0>;
    #[kani::stub(alloc::fmt::format, crate::stub_format)]
    c04_stack_edge_c2_swap_empty / 14 => vm_stack_edges::<_, 2, 0, 0>;
    #[kani::stub(alloc::fmt::format, crate::stub_format)]
    c04_stack_edge_c2_not_empty / 14 => vm_stack_edges::<_, 2, 0, 1>;
    #[kani::stub(alloc::fmt::format, crate::stub_format)]
    c04_stack_edge_c2_add_empty / 14 => vm_stack_edges::<_, 2, 0, 2>;
    #[kani::stub(alloc::fmt::format, crate::stub_format)]
    c04_stack_edge_c2_pop_empty / 14 => vm_stack_edges::<_, 2, 0, 3>;
    #[kani::stub(alloc::fmt::format, crate::stub_format)]
    c04_calls_full_1 / 14 => vm_call_stack_exhaustion::<_, 1>;
    #[kani::stub(alloc::fmt::format, crate::stub_format)]
    c04_calls_full_2 / 14 => vm_call_stack_exhaustion::<_, 2>;
    #[kani::stub(alloc::fmt::format, crate::stub_format)]
    c04_wrong_kind_call / 14 => vm_wrong_kind::<_, 0>;
    #[kani::stub(alloc::fmt::format, crate::stub_format)]
    c04_wrong_kind_get_property / 14 => vm_wrong_kind::<_, 1>;
    #[kani::stub(alloc::fmt::format, crate::stub_format)]
    c04_wrong_kind_append / 14 => vm_wrong_kind::<_, 2>;
    #[kani::stub(alloc::fmt::format, crate::stub_format)]
    c04_wrong_kind_pop_table / 14 => vm_wrong_kind::<_, 3>;
    #[kani::stub(alloc::fmt::format, crate::stub_format)]
    c04_wrong_kind_nth_row / 14 => vm_wrong_kind::<_, 4>;
    #[kani::stub(alloc::fmt::format, crate::stub_format)]
    c04_wrong_kind_read_upvalue / 14 => vm_wrong_kind::<_, 5>;
    #[kani::stub(alloc::fmt::format, crate::stub_format)]
    c04_wrong_kind_set_upvalue / 14 => vm_wrong_kind::<_, 6>;
    #[kani::stub(alloc::fmt::format, crate::stub_format)]
    c04_wrong_kind_len / 14 => vm_wrong_kind::<_, 7>;
    #[kani::stub(alloc::fmt::format, crate::stub_format)]
    c04_return_at_top_level / 14 => vm_wrong_kind::<_, 8>;
    #[kani::stub(alloc::fmt::format, crate::stub_format)]
    c04_tiny_budget / 14 => vm_tiny_budget;
    #[kani::stub(alloc::fmt::format, crate::stub_format)]
    c04_memory_limit_0_init_table / 14 => vm_memory_limit::<_, 0, 0>;
    #[kani::stub(alloc::fmt::format, crate::stub_format)]
    c04_memory_limit_64_init_table / 14 => vm_memory_limit::<_, 64, 0>;
    #[kani::stub(alloc::fmt::format, crate::stub_format)]
    c04_memory_limit_16_function_pointer / 14 => vm_memory_limit::<_, 16, 1>;
    #[kani::stub(alloc::fmt::format, crate::stub_format)]
    c04_memory_limit_40_closure / 14 => vm_memory_limit::<_, 40, 2>;
}
