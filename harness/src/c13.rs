//! C13 — HandleTable is a faithful map on non-zero handles.
//!
//! Same scheme as C12: the pre-state is an arbitrary slot array of a concrete capacity
//! constrained only by the representation invariant (stored handles are non-zero and pairwise
//! distinct, the table's own probe sequence ends at the slot that stores a handle, load within
//! what `insert` leaves behind), one operation with solver-chosen arguments, then invariant and
//! abstract content re-established. Handles are arbitrary non-zero u32 (so home slots, collisions
//! and wrap-around are solver-chosen). Termination of every probe loop is decided by CBMC's
//! unwinding assertions with the bound capacity+1.
use crate::Src;
use cao_lang::collections::handle_table::{verif_max_load, Handle, HandleTable};
use cao_lang::verif_hooks::SysAllocator;

type Tab = HandleTable<u8>;

const MAXC: usize = 32;

pub fn hnd(x: u32) -> Handle {
    bytemuck::cast::<u32, Handle>(x)
}

pub struct Pre<const C: usize> {
    pub occ: [bool; C],
    pub keys: [u32; C],
    pub vals: [u8; C],
    pub n: usize,
}

impl<const C: usize> Pre<C> {
    pub fn lookup(&self, q: u32) -> Option<u8> {
        let mut j = 0;
        while j < C {
            if self.occ[j] && self.keys[j] == q {
                return Some(self.vals[j]);
            }
            j += 1;
        }
        None
    }
}

/// largest count `insert` leaves behind at capacity c (mirrors `(count+1) as f32 > cap * 0.69`)
fn load_limit(c: usize) -> usize {
    let mut n = 0;
    while n + 1 <= c && !((n + 1) as f32 > c as f32 * verif_max_load()) {
        n += 1;
    }
    n
}

pub fn sym_state<S: Src, const C: usize>(s: &mut S) -> (Tab, Pre<C>) {
    sym_state_mask::<S, C>(s, None)
}

/// `mask`: concrete occupancy pattern (bit j = slot j occupied) so that the entry count is a
/// constant for the solver; None = solver-chosen occupancy
pub fn sym_state_mask<S: Src, const C: usize>(s: &mut S, mask: Option<u32>) -> (Tab, Pre<C>) {
    let mut t = Tab::with_capacity(C, SysAllocator).unwrap();
    assert!(t.capacity() == C, "harness.c13.capacity_as_requested");
    let mut pre = Pre::<C> {
        occ: [false; C],
        keys: [0; C],
        vals: [0; C],
        n: 0,
    };
    let mut j = 0;
    while j < C {
        pre.occ[j] = match mask {
            Some(m) => (m >> j) & 1 == 1,
            None => s.bool(),
        };
        pre.keys[j] = s.u32();
        pre.vals[j] = s.u8();
        if pre.occ[j] {
            s.assume(pre.keys[j] != 0);
            unsafe { t.verif_set_slot(j, hnd(pre.keys[j]), pre.vals[j]) };
            pre.n += 1;
        }
        j += 1;
    }
    s.assume(pre.n <= load_limit(C));
    let mut j = 0;
    while j < C {
        let mut i = 0;
        while i < j {
            s.assume(!(pre.occ[i] && pre.occ[j] && pre.keys[i] == pre.keys[j]));
            i += 1;
        }
        if pre.occ[j] {
            s.assume(t.verif_find_ind(hnd(pre.keys[j])) == j);
        }
        j += 1;
    }
    (t, pre)
}

pub fn check_inv<S: Src>(t: &Tab, s: &mut S) {
    let cap = t.capacity();
    assert!(cap <= MAXC, "harness.c13.capacity_bound");
    assert!(cap >= 2 && cap & (cap - 1) == 0, "harness.c13.capacity_is_power_of_two");
    let mut n = 0;
    let mut j = 0;
    while j < cap {
        if t.verif_slot(j).is_some() {
            n += 1;
        }
        j += 1;
    }
    assert!(n == t.len(), "C13.inv.len_equals_number_of_entries");
    assert!(t.is_empty() == (n == 0), "C13.inv.is_empty");
    assert!(n < cap, "C13.inv.one_slot_stays_empty");
    assert!(n <= load_limit(cap), "C13.inv.load_within_growth_threshold");
    let j = s.u8() as usize;
    s.assume(j < cap);
    if let Some((k, _)) = t.verif_slot(j) {
        assert!(t.verif_find_ind(k) == j, "C13.inv.every_stored_handle_is_reachable_by_probe");
        let i = s.u8() as usize;
        s.assume(i < cap && i != j);
        if let Some((k2, _)) = t.verif_slot(i) {
            assert!(k2 != k, "C13.inv.no_handle_stored_twice");
        }
    }
}

fn nz<S: Src>(s: &mut S) -> u32 {
    let k = s.u32();
    s.assume(k != 0);
    k
}

pub fn ind_insert<S: Src, const C: usize, const GROW: bool>(s: &mut S) {
    let (mut t, pre) = sym_state::<S, C>(s);
    let k = nz(s);
    let v = s.u8();
    s.assume((pre.n == load_limit(C)) == GROW);
    match t.insert(hnd(k), v) {
        Ok(r) => assert!(*r == v, "C13.insert.returns_ref_to_value"),
        Err(_) => assert!(false, "C13.insert.ok"),
    }
    let q = nz(s);
    let expect = if q == k { Some(v) } else { pre.lookup(q) };
    assert!(t.get(hnd(q)).copied() == expect, "C13.insert.lookup_after");
    assert!(t.len() == pre.n + pre.lookup(k).is_none() as usize, "C13.insert.len");
    check_inv(&t, s);
    s.reached("c13.ind_insert");
}

pub fn insert_zero_rejected<S: Src, const C: usize>(s: &mut S) {
    let (mut t, pre) = sym_state::<S, C>(s);
    assert!(t.insert(hnd(0), s.u8()).is_err(), "C13.insert.zero_handle_rejected");
    let q = nz(s);
    assert!(t.get(hnd(q)).copied() == pre.lookup(q), "C13.insert.zero_handle_leaves_table_unchanged");
    assert!(t.len() == pre.n, "C13.insert.zero_handle_len");
    s.reached("c13.insert_zero");
}

pub fn ind_remove<S: Src, const C: usize>(s: &mut S) {
    let (mut t, pre) = sym_state::<S, C>(s);
    let k = nz(s);
    let r = t.remove(hnd(k));
    assert!(r == pre.lookup(k), "C13.remove.returns_stored_value");
    let q = nz(s);
    let expect = if q == k { None } else { pre.lookup(q) };
    assert!(t.get(hnd(q)).copied() == expect, "C13.remove.never_hides_another_handle");
    assert!(t.contains(hnd(q)) == expect.is_some(), "C13.remove.contains_after");
    assert!(t.len() == pre.n - pre.lookup(k).is_some() as usize, "C13.remove.len");
    check_inv(&t, s);
    s.reached("c13.ind_remove");
}

pub fn ind_lookup<S: Src, const C: usize>(s: &mut S) {
    let (mut t, pre) = sym_state::<S, C>(s);
    let k = nz(s);
    let e = pre.lookup(k);
    assert!(t.get(hnd(k)).copied() == e, "C13.get");
    assert!(t.contains(hnd(k)) == e.is_some(), "C13.contains");
    if e.is_some() {
        assert!(t[hnd(k)] == e.unwrap(), "C13.index");
    }
    let w = s.u8();
    match t.get_mut(hnd(k)) {
        Some(r) => {
            assert!(Some(*r) == e, "C13.get_mut.value");
            *r = w;
        }
        None => assert!(e.is_none(), "C13.get_mut.none"),
    }
    let q = nz(s);
    let expect = if q == k && e.is_some() { Some(w) } else { pre.lookup(q) };
    assert!(t.get(hnd(q)).copied() == expect, "C13.get_mut.write_visible_only_at_handle");
    assert!(t.len() == pre.n, "C13.lookup.len_unchanged");
    check_inv(&t, s);
    s.reached("c13.ind_lookup");
}

pub fn ind_entry<S: Src, const C: usize, const GROW: bool>(s: &mut S) {
    let (mut t, pre) = sym_state::<S, C>(s);
    let k = nz(s);
    let v = s.u8();
    let w = s.u8();
    let old = pre.lookup(k);
    s.assume((pre.n == load_limit(C) && old.is_none()) == GROW);
    {
        let r = t.entry(hnd(k)).or_insert_with(|| v);
        assert!(*r == old.unwrap_or(v), "C13.entry.or_insert_value");
        *r = w;
    }
    let q = nz(s);
    let expect = if q == k { Some(w) } else { pre.lookup(q) };
    assert!(t.get(hnd(q)).copied() == expect, "C13.entry.lookup_after");
    assert!(t.len() == pre.n + old.is_none() as usize, "C13.entry.len");
    check_inv(&t, s);
    s.reached("c13.ind_entry");
}

pub fn ind_clear<S: Src, const C: usize>(s: &mut S) {
    let (mut t, _pre) = sym_state::<S, C>(s);
    t.clear();
    let q = nz(s);
    assert!(t.get(hnd(q)).is_none() && t.len() == 0, "C13.clear.empty_after");
    check_inv(&t, s);
    let v = s.u8();
    assert!(t.insert(hnd(q), v).is_ok(), "C13.clear.insert_after");
    assert!(t.get(hnd(q)).copied() == Some(v) && t.len() == 1, "C13.clear.usable_after");
    check_inv(&t, s);
    s.reached("c13.ind_clear");
}

pub fn ind_clone<S: Src, const C: usize>(s: &mut S) {
    let (t, pre) = sym_state::<S, C>(s);
    let c = t.clone();
    let q = nz(s);
    assert!(c.get(hnd(q)).copied() == pre.lookup(q), "C13.clone.same_content");
    assert!(c.len() == pre.n, "C13.clone.len");
    check_inv(&c, s);
    assert!(t.get(hnd(q)).copied() == pre.lookup(q), "C13.clone.source_unchanged");
    s.reached("c13.ind_clone");
}

/// clone of a table with a CONCRETE occupancy pattern (the copy's capacity may depend on the entry
/// count; a solver-chosen count would make an allocation size symbolic): handles and values
/// solver-chosen, the copy is a faithful map with the representation invariant (in particular a
/// free slot for every probe sequence to end in) and every lookup terminates
pub fn ind_clone_mask<S: Src, const C: usize, const MASK: u32>(s: &mut S) {
    let (t, pre) = sym_state_mask::<S, C>(s, Some(MASK));
    let c = t.clone();
    let q = nz(s);
    assert!(c.get(hnd(q)).copied() == pre.lookup(q), "C13.clone.same_content");
    assert!(c.contains(hnd(q)) == pre.lookup(q).is_some(), "C13.clone.contains_agrees");
    assert!(c.len() == pre.n, "C13.clone.len");
    check_inv(&c, s);
    s.reached("c13.ind_clone_mask");
}

pub fn ind_reserve<S: Src, const C: usize, const ADD: usize, const MASK: u32>(s: &mut S) {
    // concrete occupancy: reserve computes the new capacity from the entry count
    let (mut t, pre) = sym_state_mask::<S, C>(s, Some(MASK));
    assert!(t.reserve(ADD).is_ok(), "C13.reserve.ok");
    assert!(t.capacity() >= pre.n + ADD, "C13.reserve.capacity");
    let q = nz(s);
    assert!(t.get(hnd(q)).copied() == pre.lookup(q), "C13.reserve.same_content");
    assert!(t.len() == pre.n, "C13.reserve.len");
    check_inv(&t, s);
    s.reached("c13.ind_reserve");
}

pub fn ind_iter<S: Src, const C: usize>(s: &mut S) {
    let (mut t, pre) = sym_state::<S, C>(s);
    let q = nz(s);
    let mut seen_q = 0usize;
    let mut n = 0usize;
    for (k, v) in t.iter() {
        assert!(pre.lookup(k.value()) == Some(*v), "C13.iter.yields_stored_entries");
        if k.value() == q {
            seen_q += 1;
        }
        n += 1;
    }
    assert!(n == pre.n, "C13.iter.count");
    assert!(seen_q == pre.lookup(q).is_some() as usize, "C13.iter.each_entry_exactly_once");
    let mut n = 0usize;
    for (k, v) in t.iter_mut() {
        assert!(pre.lookup(k.value()) == Some(*v), "C13.iter_mut.yields_stored_entries");
        n += 1;
    }
    assert!(n == pre.n, "C13.iter_mut.count");
    s.reached("c13.ind_iter");
}

/// any requested initial capacity, then one solver-chosen first operation
pub fn initial_capacity<S: Src, const REQ: usize>(s: &mut S) {
    let t = Tab::with_capacity(REQ, SysAllocator);
    assert!(t.is_ok(), "C13.with_capacity.ok");
    let mut t = t.unwrap();
    assert!(t.len() == 0, "C13.with_capacity.empty");
    assert!(t.capacity() >= REQ, "C13.with_capacity.at_least_requested");
    let k = nz(s);
    let v = s.u8();
    match s.below(5) {
        0 => assert!(t.get(hnd(k)).is_none(), "C13.initcap.get_on_empty"),
        1 => assert!(!t.contains(hnd(k)), "C13.initcap.contains_on_empty"),
        2 => {
            assert!(t.insert(hnd(k), v).is_ok(), "C13.initcap.insert_ok");
            assert!(t.get(hnd(k)).copied() == Some(v) && t.len() == 1, "C13.initcap.insert_then_get");
        }
        3 => {
            let r = t.entry(hnd(k)).or_insert_with(|| v);
            assert!(*r == v, "C13.initcap.entry_value");
            assert!(t.get(hnd(k)).copied() == Some(v) && t.len() == 1, "C13.initcap.entry_then_get");
        }
        _ => assert!(t.remove(hnd(k)).is_none() && t.len() == 0, "C13.initcap.remove_on_empty"),
    }
    check_inv(&t, s);
    s.reached("c13.initial_capacity");
}

/// N distinct solver-chosen handles through one insertion path (0 = insert, 1 = entry) into a
/// default-style table of capacity C: all calls return, all N are retrievable. This is the
/// public-API history form of "every operation terminates however many entries are added".
pub fn fill<S: Src, const C: usize, const N: usize, const PATH: u8>(s: &mut S) {
    let mut t = Tab::with_capacity(C, SysAllocator).unwrap();
    let mut keys = [0u32; N];
    let mut i = 0;
    while i < N {
        keys[i] = nz(s);
        let mut j = 0;
        while j < i {
            s.assume(keys[j] != keys[i]);
            j += 1;
        }
        if PATH == 0 {
            assert!(t.insert(hnd(keys[i]), i as u8).is_ok(), "C13.fill.insert_ok");
        } else {
            t.entry(hnd(keys[i])).or_insert_with(|| i as u8);
        }
        i += 1;
    }
    assert!(t.len() == N, "C13.fill.len");
    let mut i = 0;
    while i < N {
        assert!(t.get(hnd(keys[i])).copied() == Some(i as u8), "C13.fill.all_retrievable");
        i += 1;
    }
    check_inv(&t, s);
    std::mem::forget(t);
    s.reached("c13.fill");
}

// ------------------------------------------------------------------ drop exactly once

static mut DROPS: [u8; 8] = [0; 8];

pub struct Tracked(pub u8);
impl Drop for Tracked {
    fn drop(&mut self) {
        unsafe {
            DROPS[self.0 as usize] += 1;
        }
    }
}

type TTab = HandleTable<Tracked>;

pub fn ind_drops<S: Src, const C: usize, const OP: u8>(s: &mut S) {
    unsafe {
        DROPS = [0; 8];
    }
    let mut created = [false; 8];
    {
        let mut t = TTab::with_capacity(C, SysAllocator).unwrap();
        let mut occ = [false; C];
        let mut keys = [0u32; C];
        let mut n = 0;
        let mut j = 0;
        while j < C {
            occ[j] = s.bool();
            keys[j] = s.u32();
            if occ[j] {
                s.assume(keys[j] != 0);
                unsafe { t.verif_set_slot(j, hnd(keys[j]), Tracked(j as u8)) };
                created[j] = true;
                n += 1;
            }
            j += 1;
        }
        s.assume(n <= load_limit(C));
        if OP == 0 || OP == 3 {
            // growth is covered by the u8 harnesses; keep the drop harness below the threshold
            s.assume(n < load_limit(C));
        }
        let mut j = 0;
        while j < C {
            let mut i = 0;
            while i < j {
                s.assume(!(occ[i] && occ[j] && keys[i] == keys[j]));
                i += 1;
            }
            if occ[j] {
                s.assume(t.verif_find_ind(hnd(keys[j])) == j);
            }
            j += 1;
        }
        let k = nz(s);
        let new_id = C as u8;
        match OP {
            0 => {
                created[new_id as usize] = true;
                assert!(t.insert(hnd(k), Tracked(new_id)).is_ok(), "C13.drops.insert_ok");
            }
            1 => {
                if let Some(v) = t.remove(hnd(k)) {
                    assert!(unsafe { DROPS[v.0 as usize] } == 0, "C13.drops.removed_value_not_dropped_by_table");
                    drop(v);
                }
            }
            2 => {
                t.clear();
                let mut id = 0;
                while id < C {
                    if created[id] {
                        assert!(unsafe { DROPS[id] } == 1, "C13.drops.clear_drops_each_once");
                    }
                    id += 1;
                }
            }
            _ => {
                let mut made = false;
                {
                    t.entry(hnd(k)).or_insert_with(|| {
                        made = true;
                        Tracked(new_id)
                    });
                }
                created[new_id as usize] = made;
            }
        }
        let cap = t.capacity();
        let mut j = 0;
        while j < cap && j < MAXC {
            if let Some((_, v)) = t.verif_slot(j) {
                assert!(unsafe { DROPS[v.0 as usize] } == 0, "C13.drops.stored_value_still_alive");
            }
            j += 1;
        }
    }
    let mut id = 0;
    while id < 8 {
        let d = unsafe { DROPS[id] };
        if created[id] {
            assert!(d == 1, "C13.drops.every_value_dropped_exactly_once");
        } else {
            assert!(d == 0, "C13.drops.nothing_else_dropped");
        }
        id += 1;
    }
    s.reached("c13.ind_drops");
}

crate::harnesses! {
    c13_insert_c4 / 6 => ind_insert::<_, 4, false>;
    c13_insert_c4_grow / 10 => ind_insert::<_, 4, true>;
    c13_insert_c8 / 10 => ind_insert::<_, 8, false>;
    c13_insert_c8_grow / 18 => ind_insert::<_, 8, true>;
    c13_insert_zero_c4 / 6 => insert_zero_rejected::<_, 4>;
    c13_remove_c4 / 6 => ind_remove::<_, 4>;
    c13_remove_c8 / 10 => ind_remove::<_, 8>;
    c13_lookup_c4 / 6 => ind_lookup::<_, 4>;
    c13_lookup_c8 / 10 => ind_lookup::<_, 8>;
    c13_entry_c4 / 6 => ind_entry::<_, 4, false>;
    c13_entry_c4_grow / 10 => ind_entry::<_, 4, true>;
    c13_entry_c8 / 10 => ind_entry::<_, 8, false>;
    c13_entry_c8_grow / 18 => ind_entry::<_, 8, true>;
    c13_clear_c4 / 6 => ind_clear::<_, 4>;
    c13_clone_c4 / 6 => ind_clone::<_, 4>;
    c13_clone_c8 / 10 => ind_clone::<_, 8>;
    c13_clone_c8_n4 / 10 => ind_clone_mask::<_, 8, 0b01100101>;
    c13_clone_c4_n2 / 6 => ind_clone_mask::<_, 4, 0b0110>;
    c13_reserve_c4_2_noop / 6 => ind_reserve::<_, 4, 2, 0b0101>;
    c13_reserve_c4_3_m6 / 10 => ind_reserve::<_, 4, 3, 0b0110>;
    c13_reserve_c4_4_m9 / 18 => ind_reserve::<_, 4, 4, 0b1001>;
    c13_iter_c4 / 6 => ind_iter::<_, 4>;
    c13_iter_c8 / 10 => ind_iter::<_, 8>;
    c13_initcap_0 / 10 => initial_capacity::<_, 0>;
    c13_initcap_1 / 10 => initial_capacity::<_, 1>;
    c13_initcap_2 / 10 => initial_capacity::<_, 2>;
    c13_initcap_3 / 10 => initial_capacity::<_, 3>;
    c13_initcap_5 / 10 => initial_capacity::<_, 5>;
    c13_initcap_6 / 10 => initial_capacity::<_, 6>;
    c13_initcap_7 / 10 => initial_capacity::<_, 7>;
    c13_initcap_8 / 10 => initial_capacity::<_, 8>;
    c13_initcap_9 / 18 => initial_capacity::<_, 9>;
    c13_fill_insert_c4_n5 / 18 => fill::<_, 4, 5, 0>;
    c13_fill_entry_c4_n5 / 18 => fill::<_, 4, 5, 1>;
    c13_fill_entry_c4_n3 / 10 => fill::<_, 4, 3, 1>;
    c13_drops_insert_c4 / 10 => ind_drops::<_, 4, 0>;
    c13_drops_remove_c4 / 10 => ind_drops::<_, 4, 1>;
    c13_drops_clear_c4 / 10 => ind_drops::<_, 4, 2>;
    c13_drops_entry_c4 / 10 => ind_drops::<_, 4, 3>;
}
