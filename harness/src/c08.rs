//! C08 / C10 / C15 / C04 (compiler half) — the real compiler on small modules.
//!
//! `compile()` injects the standard library (11 functions) into every program, which puts it out
//! of reach of symbolic execution. With the `empty_stdlib` hook the injected `std` module is
//! empty; everything else (`into_ir_stream`, `flatten_module`, `execute_imports`,
//! `Compiler::compile`, `resolve_function`, ...) is the real code.
use crate::Src;
use cao_lang::compiler::{Card, CompileOptions, Function, Module};
use cao_lang::prelude::*;
use cao_lang::verif_hooks::{opcode_span, op, set_empty_stdlib};

fn module1(f: Function) -> Module {
    let mut m = Module::default();
    m.functions.push(("main".to_string(), f));
    m
}

/// front-to-back decode with the real span table: returns the number of instructions, or None
pub fn decode_all(bc: &[u8], starts: &mut [bool; 64]) -> Option<usize> {
    let mut ip = 0usize;
    let mut n = 0usize;
    while ip < bc.len() {
        if n >= 24 || ip >= 64 {
            return None;
        }
        starts[ip] = true;
        match opcode_span(bc[ip]) {
            Some(sp) => ip += sp,
            None => return None,
        }
        n += 1;
    }
    if ip == bc.len() {
        Some(n)
    } else {
        None
    }
}

/// probe: `main: [SetGlobalVar g = ScalarInt x]`
pub fn compile_probe<S: Src>(s: &mut S) {
    set_empty_stdlib(true);
    let x = s.i64();
    let m = module1(Function::default().with_card(Card::set_global_var("g", Card::scalar_int(x))));
    let r = compile(m, CompileOptions::new());
    match &r {
        Ok(p) => {
            let bc = &p.bytecode;
            assert!(bc.len() == 9 + 5 + 1 + 1, "C10.shape.length");
            assert!(bc[0] == op::SCALAR_INT, "C10.shape.first_is_literal");
            assert!(bc[9] == op::SET_GLOBAL_VAR, "C10.shape.set_global");
            assert!(bc[bc.len() - 1] == op::EXIT, "C10.ends_with_exit");
        }
        Err(_) => assert!(false, "C04.compile.accepts_a_well_formed_module"),
    }
    std::mem::forget(r);
    s.reached("c08.compile_probe");
}


// ------------------------------------------------------------------------------------------
// unit level: variable resolution (locals / upvalues / globals) of the compiler

use cao_lang::compiler::Compiler;

const NAMES: [&str; 4] = ["a", "b", "c", "d"];
const MAXL: usize = 3;

/// which variable an upvalue of function `f` designates: (function level, slot)
fn designate(c: &Compiler, mut f: usize, mut k: usize) -> Option<(usize, usize)> {
    let mut guard = 0;
    while guard < 4 {
        if f == 0 {
            return None;
        }
        match c.verif_upvalue(f, k) {
            Some((true, idx)) => return Some((f - 1, idx as usize)),
            Some((false, idx)) => {
                f -= 1;
                k = idx as usize;
            }
            None => return None,
        }
        guard += 1;
    }
    None
}

/// Function levels 0..=DEPTH (level 0 = the function itself, each further level a closure
/// nested in the previous one). Every level declares 0..=MAXL locals whose names are
/// solver-chosen from {a,b,c} (so shadowing inside one function occurs); levels >= 1 first
/// resolve 0..=PRE solver-chosen names (which registers upvalues, so that upvalue indices differ
/// between levels); finally a solver-chosen name from {a,b,c,d} is resolved at the innermost
/// level. It must designate the innermost binding of that name: the last matching local of the
/// current function, else the last matching local of the nearest enclosing function (through a
/// chain of upvalues whose index is the *current* function's own), else a global.
/// one-letter names in harness-owned one-byte buffers: address and length are concrete, the letter
/// (a, b or c; d for the query) is solver-chosen
fn fill_names<S: Src>(s: &mut S, buf: &mut [u8; 16], letters: u8) {
    let mut i = 0;
    while i < 16 {
        buf[i] = b'a' + s.below(letters);
        i += 1;
    }
}

fn name_at(buf: &[u8; 16], i: usize) -> &str {
    unsafe { std::str::from_utf8_unchecked(&buf[i..i + 1]) }
}

pub fn resolve_var_nested<S: Src, const DEPTH: usize, const N0: usize, const N1: usize, const N2: usize, const PRE: usize>(s: &mut S) {
    resolve_var_nested2::<S, DEPTH, N0, N1, N2, PRE, PRE>(s)
}

/// PRE1 / PRE2: earlier resolves at the first / second closure level
pub fn resolve_var_nested2<S: Src, const DEPTH: usize, const N0: usize, const N1: usize, const N2: usize, const PRE: usize, const PRE2: usize>(s: &mut S) {
    // the number of locals per level and of earlier resolves is concrete per harness (a
    // solver-chosen count makes every ArrayVec access a symbolic-offset access into 6 KB)
    let ncount = [N0, N1, N2];
    let mut pool = [0u8; 16];
    fill_names(s, &mut pool, 3);
    // the queried name may also be one that is bound nowhere
    pool[15] = b'a' + s.below(4);
    let pool = pool;
    let mut c = Compiler::new();
    let mut names = [[9u8; MAXL]; 3];
    let mut counts = [0usize; 3];
    let mut next = 0usize;
    let mut lvl = 0;
    while lvl <= DEPTH {
        if lvl > 0 {
            c.verif_compile_begin();
        }
        c.verif_scope_begin();
        let n = ncount[lvl];
        let mut i = 0;
        while i < n {
            let slot = c.verif_add_local(name_at(&pool, next));
            assert!(slot == Some(i as u32), "C01.scope.locals_get_consecutive_slots");
            names[lvl][i] = pool[next];
            next += 1;
            i += 1;
        }
        counts[lvl] = n;
        if lvl > 0 {
            let pre = if lvl == 2 { PRE2 } else { PRE };
            let mut j = 0;
            while j < pre {
                let _ = c.verif_resolve_var(name_at(&pool, next));
                next += 1;
                j += 1;
            }
        }
        lvl += 1;
    }
    assert!(c.verif_function_id() == DEPTH, "harness.depth");
    let q = pool[15];
    let r = c.verif_resolve_var(name_at(&pool, 15));
    // reference: innermost binding
    let mut found: Option<(usize, usize)> = None;
    let mut l = DEPTH as isize;
    while l >= 0 && found.is_none() {
        let lu = l as usize;
        let mut i = counts[lu];
        while i > 0 {
            i -= 1;
            if names[lu][i] == q {
                found = Some((lu, i));
                break;
            }
        }
        l -= 1;
    }
    match (r, found) {
        (None, _) => assert!(false, "C01.scope.resolving_a_nonempty_name_succeeds"),
        (Some((kind, idx)), Some((fl, fi))) if fl == DEPTH => {
            assert!(kind == 1, "C01.scope.a_name_bound_in_the_current_function_is_a_local");
            assert!(idx == fi, "C01.scope.local_name_resolves_to_the_innermost_binding");
        }
        (Some((kind, idx)), Some((fl, fi))) => {
            assert!(kind == 2, "C06.capture.a_name_bound_in_an_enclosing_function_is_an_upvalue");
            assert!(idx < c.verif_upvalue_count(DEPTH), "C10.upvalue.index_within_the_closures_registered_upvalues");
            let d = designate(&c, DEPTH, idx);
            assert!(d.is_some(), "C10.upvalue.chain_is_well_formed");
            if let Some((dl, di)) = d {
                assert!(dl == fl, "C06.capture.upvalue_designates_the_nearest_enclosing_function_that_binds_the_name");
                assert!(di == fi, "C06.capture.upvalue_designates_the_innermost_binding_of_the_name");
            }
            assert!(c.verif_local_captured(fl, fi) == Some(true), "C06.capture.captured_local_is_marked_for_closing");
        }
        (Some((kind, _)), None) => {
            assert!(kind == 0, "C01.scope.an_unbound_name_is_a_global");
        }
    }
    std::mem::forget(c);
    s.reached("c08.resolve_var_nested");
}

/// `scope_end` pops exactly the locals declared since the matching `scope_begin` and emits one
/// `Pop` per plain local and one `CloseUpvalue` per captured local, innermost first
pub fn scope_end_emits<S: Src>(s: &mut S) {
    let mut c = Compiler::new();
    c.verif_scope_begin();
    let n0 = s.below(3) as usize;
    let mut i = 0;
    while i < n0 {
        let _ = c.verif_add_local(match i { 0 => "a", 1 => "b", _ => "c" });
        i += 1;
    }
    c.verif_scope_begin();
    let n1 = 1 + s.below(3) as usize;
    let mut cap = [false; 3];
    i = 0;
    while i < n1 {
        let _ = c.verif_add_local(NAMES[3]);
        i += 1;
    }
    // a closure inside captures some of the inner locals by resolving their slot's name:
    // all inner locals are called "d", so a capture designates the last one
    let capture = s.bool();
    if capture {
        c.verif_compile_begin();
        c.verif_scope_begin();
        let r = c.verif_resolve_var(NAMES[3]);
        assert!(matches!(r, Some((2, 0))), "C06.capture.first_upvalue_of_a_closure_has_index_0");
        c.verif_scope_end();
        c.verif_compile_end();
        cap[n1 - 1] = true;
    }
    let before = c.verif_bytecode().len();
    c.verif_scope_end();
    let bc = c.verif_bytecode();
    assert!(bc.len() == before + n1, "C01.scope.scope_end_releases_exactly_the_scopes_locals");
    assert!(c.verif_local_count(0) == n0, "C01.scope.outer_locals_survive_the_inner_scope");
    i = 0;
    while i < n1 {
        // innermost (last declared) first
        let slot = n1 - 1 - i;
        let want = if cap[slot] { op::CLOSE_UPVALUE } else { op::POP };
        assert!(bc[before + i] == want, "C06.lifetime.captured_locals_are_closed_plain_locals_popped");
        i += 1;
    }
    std::mem::forget(c);
    s.reached("c08.scope_end_emits");
}

// ------------------------------------------------------------------------------------------
// unit level: import paths

/// reference: strip leading "super." occurrences scanning left to right (non-overlapping);
/// returns (count, offset of the rest after the last one)
fn super_ref(b: &[u8]) -> (usize, usize) {
    const PAT: &[u8; 6] = b"super.";
    let mut cnt = 0;
    let mut rest = 0;
    let mut i = 0;
    while i + 6 <= b.len() {
        let mut m = true;
        let mut j = 0;
        while j < 6 {
            if b[i + j] != PAT[j] {
                m = false;
            }
            j += 1;
        }
        if m {
            cnt += 1;
            i += 6;
            rest = i;
        } else {
            i += 1;
        }
    }
    (cnt, rest)
}

/// `super_depth` on every string of LEN bytes over the alphabet {s,u,p,e,r,.,x}: the number of
/// `super.` steps and the remaining path (the text after the last `super.`)
pub fn super_depth_all<S: Src, const LEN: usize>(s: &mut S) {
    const ALPHA: [u8; 7] = *b"super.x";
    let mut b = [0u8; LEN];
    let mut i = 0;
    while i < LEN {
        b[i] = ALPHA[s.below(7) as usize];
        i += 1;
    }
    let st = unsafe { std::str::from_utf8_unchecked(&b[..]) };
    let (cnt, suffix) = cao_lang::compiler::verif_super_depth(st);
    let (rc, rest) = super_ref(&b);
    assert!(cnt == rc, "C08.import.super_depth_counts_the_super_steps");
    match suffix {
        None => assert!(rc == 0, "C08.import.no_suffix_only_without_super"),
        Some(sf) => {
            assert!(rc > 0, "C08.import.suffix_only_after_a_super_step");
            assert!(sf.len() == LEN - rest, "C08.import.suffix_is_the_path_after_the_last_super_step");
            assert!(sf.as_ptr() == b[rest..].as_ptr(), "C08.import.suffix_is_the_path_after_the_last_super_step");
        }
    }
    s.reached("c08.super_depth_all");
}

// ------------------------------------------------------------------------------------------
// unit level: function name resolution

const FN_NAMES: [&str; 9] = ["f", "superf", "a.f", "a.superf", "a.b.f", "a.b.c.f", "a.c.f", "c.f", "a.super.c.c"];
const QUERIES: [&str; 5] = ["f", "superf", "c.f", "a.f", "zz"];
const NONE: usize = 99;
/// rule does not apply
const SKIP: usize = 98;
/// rule applies but walks above the root module: the call cannot be resolved at all
const TOO_DEEP: usize = 97;

fn fn_index(name: &str) -> usize {
    let mut i = 0;
    while i < FN_NAMES.len() {
        if FN_NAMES[i] == name {
            return i;
        }
        i += 1;
    }
    NONE
}

fn join(ns: &[&str], tail: &[&str]) -> String {
    let mut out = String::with_capacity(24);
    let mut i = 0;
    while i < ns.len() {
        out.push_str(ns[i]);
        out.push('.');
        i += 1;
    }
    i = 0;
    while i < tail.len() {
        out.push_str(tail[i]);
        i += 1;
    }
    out
}

/// reference for one import `alias` seen from `ns`: (super steps, path after them)
fn split_super(alias: &str) -> (usize, &str) {
    let mut k = 0;
    let mut rest = alias;
    while rest.len() >= 6 && &rest.as_bytes()[..6] == b"super." {
        k += 1;
        rest = &rest[6..];
    }
    (k, rest)
}

/// The caller lives in module NS (0: root, 1: `a`, 2: `a.b`) and sees the import IMP; which of
/// the nine candidate functions exist is solver-chosen (2^9 tables); every name of QUERIES is called.
/// The call must resolve to the first existing function in the order the language defines:
/// absolute path, the caller's own module, a function import, a module-prefix import (`super.`
/// walking up from the caller's module), and to nothing otherwise - never to anything else.
pub fn resolve_function_ctx<S: Src, const NS: usize, const IMP: usize, const QSEL: usize>(s: &mut S) {
    let ns: &[&str] = match NS {
        0 => &[],
        1 => &["a"],
        _ => &["a", "b"],
    };
    // (name the import binds, path)
    let imp: Option<(&str, &str)> = match IMP {
        0 => None,
        1 => Some(("f", "c.f")),
        2 => Some(("f", "super.f")),
        3 => Some(("f", "super.super.f")),
        4 => Some(("superf", "super.superf")),
        5 => Some(("c", "super.c")),
        6 => Some(("c", "b.c")),
        _ => Some(("f", "super.super.super.f")),
    };
    let mut c = Compiler::new();
    match imp {
        Some((k, v)) => c.verif_set_context(ns, &[(k, v)]),
        None => c.verif_set_context(ns, &[]),
    }
    // the candidate of every rule for every query (concrete computation)
    let mut cand = [[SKIP; 4]; 5];
    let mut qi = 0;
    while qi < QUERIES.len() {
        let q = QUERIES[qi];
        cand[qi][0] = fn_index(q);
        cand[qi][1] = fn_index(&join(ns, &[q]));
        if let Some((key, alias)) = imp {
            let (k, rest) = split_super(alias);
            if key == q {
                cand[qi][2] = if k > ns.len() { TOO_DEEP } else { fn_index(&join(&ns[..ns.len() - k], &[rest])) };
            }
            if let Some(dot) = q.find('.') {
                let (prefix, suffix) = (&q[..dot], &q[dot + 1..]);
                if key == prefix {
                    cand[qi][3] = if k > ns.len() {
                        TOO_DEEP
                    } else {
                        fn_index(&join(&ns[..ns.len() - k], &[rest, ".", suffix]))
                    };
                }
            }
        }
        qi += 1;
    }
    // only the functions some rule can look up for one of the called names take part (the others
    // cannot influence the result); whether each of them exists is solver-chosen
    let mut present = [false; 9];
    let mut i = 0;
    while i < FN_NAMES.len() {
        let mut relevant = IMP == 5 && i == 8;
        let mut qi = 0;
        while qi < QUERIES.len() {
            let mut r = 0;
            while r < 4 {
                if cand[qi][r] == i && (QSEL >= QUERIES.len() || QSEL == qi) {
                    relevant = true;
                }
                r += 1;
            }
            qi += 1;
        }
        if relevant {
            present[i] = s.bool();
            if present[i] {
                let ok = c.verif_add_function(FN_NAMES[i], Handle::from_u32(i as u32 + 1), i as u32);
                assert!(ok, "harness.add_function");
            }
        }
        i += 1;
    }
    // every query in turn (concrete strings: hashing and path building fold to constants; the
    // solver-chosen part is which functions exist)
    let mut q = 0;
    while q < QUERIES.len() {
        if QSEL < QUERIES.len() && QSEL != q {
            q += 1;
            continue;
        }
        let got = c.verif_resolve_function(QUERIES[q]);
        let mut want: Option<usize> = None;
        let mut r = 0;
        while r < 4 {
            let ci = cand[q][r];
            if ci == TOO_DEEP {
                break;
            }
            if ci < FN_NAMES.len() && present[ci] {
                want = Some(ci);
                break;
            }
            r += 1;
        }
        match (got, want) {
            (None, None) => {}
            (Some((h, ar)), Some(w)) => {
                assert!(h == Handle::from_u32(w as u32 + 1), "C08.resolve.call_designates_the_function_the_rules_select");
                assert!(ar == w as u32, "C08.resolve.arity_is_the_designated_functions");
            }
            (Some(_), None) => assert!(false, "C08.resolve.unresolvable_name_is_an_error"),
            (None, Some(_)) => assert!(false, "C08.resolve.resolvable_name_compiles"),
        }
        q += 1;
    }
    std::mem::forget(c);
    s.reached("c08.resolve_function_ctx");
}

// ------------------------------------------------------------------------------------------
// unit level: stage 1, registering functions

/// Two functions are registered one after the other; each lives in a solver-chosen module
/// (root, `a`, `a.b`) under a solver-chosen one-letter name (f or g). The second registration is
/// rejected exactly when both have the same full dotted name, and afterwards a call by full
/// name reaches the function registered under it.
pub fn add_function_duplicates<S: Src>(s: &mut S) {
    let mut letters = [0u8; 2];
    letters[0] = b'f' + s.below(2);
    letters[1] = b'f' + s.below(2);
    let m0 = s.below(3) as usize;
    let m1 = s.below(3) as usize;
    let ns_of = |m: usize| -> &'static [&'static str] {
        match m {
            0 => &[],
            1 => &["a"],
            _ => &["a", "b"],
        }
    };
    let n0 = unsafe { std::str::from_utf8_unchecked(&letters[0..1]) };
    let n1 = unsafe { std::str::from_utf8_unchecked(&letters[1..2]) };
    let mut c = Compiler::new();
    let first = c.verif_add_function_ir(ns_of(m0), n0, Handle::from_u32(1), 0);
    assert!(first, "C08.register.first_function_is_accepted");
    let second = c.verif_add_function_ir(ns_of(m1), n1, Handle::from_u32(2), 1);
    let same = m0 == m1 && letters[0] == letters[1];
    assert!(second == !same, "C08.register.second_function_is_rejected_exactly_for_a_duplicate_full_name");
    std::mem::forget(c);
    s.reached("c08.add_function_duplicates");
}

crate::harnesses! {
    #[kani::stub(std::hash::RandomState::new, crate::stub_random_state)]
    #[kani::stub(alloc::fmt::format, crate::stub_format)]
    cx_resolve_q_ns0_imp2_q0 / 12 => resolve_function_ctx::<_, 0, 2, 0>;
    #[kani::stub(std::hash::RandomState::new, crate::stub_random_state)]
    #[kani::stub(alloc::fmt::format, crate::stub_format)]
    cx_resolve_q_ns2_imp5_q2 / 12 => resolve_function_ctx::<_, 2, 5, 2>;
    #[kani::stub(std::hash::RandomState::new, crate::stub_random_state)]
    #[kani::stub(alloc::fmt::format, crate::stub_format)]
    cx_resolve_q_ns2_imp4_q1 / 12 => resolve_function_ctx::<_, 2, 4, 1>;
    #[kani::stub(std::hash::RandomState::new, crate::stub_random_state)]
    #[kani::stub(alloc::fmt::format, crate::stub_format)]
    cx_resolve_q_ns1_imp1_q0 / 12 => resolve_function_ctx::<_, 1, 1, 0>;
    #[kani::stub(std::hash::RandomState::new, crate::stub_random_state)]
    #[kani::stub(alloc::fmt::format, crate::stub_format)]
    cx_resolve_q_ns2_imp3_q0 / 12 => resolve_function_ctx::<_, 2, 3, 0>;
    #[kani::stub(std::hash::RandomState::new, crate::stub_random_state)]
    #[kani::stub(alloc::fmt::format, crate::stub_format)]
    cx_resolve_q_ns1_imp6_q2 / 12 => resolve_function_ctx::<_, 1, 6, 2>;
    #[kani::stub(std::hash::RandomState::new, crate::stub_random_state)]
    #[kani::stub(alloc::fmt::format, crate::stub_format)]
    cx_resolve_q_ns1_imp2_q0 / 12 => resolve_function_ctx::<_, 1, 2, 0>;
    #[kani::stub(std::hash::RandomState::new, crate::stub_random_state)]
    #[kani::stub(alloc::fmt::format, crate::stub_format)]
    cx_resolve_q_ns0_imp1_q0 / 12 => resolve_function_ctx::<_, 0, 1, 0>;
    #[kani::stub(std::hash::RandomState::new, crate::stub_random_state)]
    #[kani::stub(alloc::fmt::format, crate::stub_format)]
    cx_resolve_q_ns2_imp2_q0 / 12 => resolve_function_ctx::<_, 2, 2, 0>;
    #[kani::stub(std::hash::RandomState::new, crate::stub_random_state)]
    #[kani::stub(alloc::fmt::format, crate::stub_format)]
    cx_resolve_q_ns1_imp4_q1 / 12 => resolve_function_ctx::<_, 1, 4, 1>;
    #[kani::stub(std::hash::RandomState::new, crate::stub_random_state)]
    #[kani::stub(alloc::fmt::format, crate::stub_format)]
    cx_resolve_q_ns2_imp1_q0 / 12 => resolve_function_ctx::<_, 2, 1, 0>;
    #[kani::stub(std::hash::RandomState::new, crate::stub_random_state)]
    #[kani::stub(alloc::fmt::format, crate::stub_format)]
    cx_resolve_q_ns0_imp7_q0 / 12 => resolve_function_ctx::<_, 0, 7, 0>;
    #[kani::stub(std::hash::RandomState::new, crate::stub_random_state)]
    #[kani::stub(alloc::fmt::format, crate::stub_format)]
    cx_resolve_q_ns1_imp5_q2 / 12 => resolve_function_ctx::<_, 1, 5, 2>;
    #[kani::stub(std::hash::RandomState::new, crate::stub_random_state)]
    #[kani::stub(alloc::fmt::format, crate::stub_format)]
    cx_resolve_q_ns2_imp6_q2 / 12 => resolve_function_ctx::<_, 2, 6, 2>;
    #[kani::stub(std::hash::RandomState::new, crate::stub_random_state)]
    #[kani::stub(alloc::fmt::format, crate::stub_format)]
    cx_resolve_q_ns2_imp7_q0 / 12 => resolve_function_ctx::<_, 2, 7, 0>;
    #[kani::stub(std::hash::RandomState::new, crate::stub_random_state)]
    #[kani::stub(alloc::fmt::format, crate::stub_format)]
    cx_resolve_q_ns1_imp3_q0 / 12 => resolve_function_ctx::<_, 1, 3, 0>;
    #[kani::stub(std::hash::RandomState::new, crate::stub_random_state)]
    #[kani::stub(alloc::fmt::format, crate::stub_format)]
    cx_resolve_q_ns0_imp0_q0 / 12 => resolve_function_ctx::<_, 0, 0, 0>;
    #[kani::stub(std::hash::RandomState::new, crate::stub_random_state)]
    #[kani::stub(alloc::fmt::format, crate::stub_format)]
    cx_resolve_q_ns2_imp0_q0 / 12 => resolve_function_ctx::<_, 2, 0, 0>;
    #[kani::stub(std::hash::RandomState::new, crate::stub_random_state)]
    #[kani::stub(alloc::fmt::format, crate::stub_format)]
    cx_resolve_q_ns1_imp0_q3 / 12 => resolve_function_ctx::<_, 1, 0, 3>;
    #[kani::stub(std::hash::RandomState::new, crate::stub_random_state)]
    #[kani::stub(alloc::fmt::format, crate::stub_format)]
    cx_resolve_q_ns2_imp0_q3 / 12 => resolve_function_ctx::<_, 2, 0, 3>;
    #[kani::stub(std::hash::RandomState::new, crate::stub_random_state)]
    cx_add_function_duplicates / 12 => add_function_duplicates;
    #[kani::stub(std::hash::RandomState::new, crate::stub_random_state)]
    #[kani::stub(alloc::fmt::format, crate::stub_format)]
    cx_resolve_fn_ns0_imp0 / 12 => resolve_function_ctx::<_, 0, 0, 9>;
    #[kani::stub(std::hash::RandomState::new, crate::stub_random_state)]
    #[kani::stub(alloc::fmt::format, crate::stub_format)]
    cx_resolve_fn_ns0_imp1 / 12 => resolve_function_ctx::<_, 0, 1, 9>;
    #[kani::stub(std::hash::RandomState::new, crate::stub_random_state)]
    #[kani::stub(alloc::fmt::format, crate::stub_format)]
    cx_resolve_fn_ns0_imp2 / 12 => resolve_function_ctx::<_, 0, 2, 9>;
    #[kani::stub(std::hash::RandomState::new, crate::stub_random_state)]
    #[kani::stub(alloc::fmt::format, crate::stub_format)]
    cx_resolve_fn_ns0_imp3 / 12 => resolve_function_ctx::<_, 0, 3, 9>;
    #[kani::stub(std::hash::RandomState::new, crate::stub_random_state)]
    #[kani::stub(alloc::fmt::format, crate::stub_format)]
    cx_resolve_fn_ns0_imp4 / 12 => resolve_function_ctx::<_, 0, 4, 9>;
    #[kani::stub(std::hash::RandomState::new, crate::stub_random_state)]
    #[kani::stub(alloc::fmt::format, crate::stub_format)]
    cx_resolve_fn_ns0_imp5 / 12 => resolve_function_ctx::<_, 0, 5, 9>;
    #[kani::stub(std::hash::RandomState::new, crate::stub_random_state)]
    #[kani::stub(alloc::fmt::format, crate::stub_format)]
    cx_resolve_fn_ns0_imp6 / 12 => resolve_function_ctx::<_, 0, 6, 9>;
    #[kani::stub(std::hash::RandomState::new, crate::stub_random_state)]
    #[kani::stub(alloc::fmt::format, crate::stub_format)]
    cx_resolve_fn_ns0_imp7 / 12 => resolve_function_ctx::<_, 0, 7, 9>;
    #[kani::stub(std::hash::RandomState::new, crate::stub_random_state)]
    #[kani::stub(alloc::fmt::format, crate::stub_format)]
    cx_resolve_fn_ns1_imp0 / 12 => resolve_function_ctx::<_, 1, 0, 9>;
    #[kani::stub(std::hash::RandomState::new, crate::stub_random_state)]
    #[kani::stub(alloc::fmt::format, crate::stub_format)]
    cx_resolve_fn_ns1_imp1 / 12 => resolve_function_ctx::<_, 1, 1, 9>;
    #[kani::stub(std::hash::RandomState::new, crate::stub_random_state)]
    #[kani::stub(alloc::fmt::format, crate::stub_format)]
    cx_resolve_fn_ns1_imp2 / 12 => resolve_function_ctx::<_, 1, 2, 9>;
    #[kani::stub(std::hash::RandomState::new, crate::stub_random_state)]
    #[kani::stub(alloc::fmt::format, crate::stub_format)]
    cx_resolve_fn_ns1_imp3 / 12 => resolve_function_ctx::<_, 1, 3, 9>;
    #[kani::stub(std::hash::RandomState::new, crate::stub_random_state)]
    #[kani::stub(alloc::fmt::format, crate::stub_format)]
    cx_resolve_fn_ns1_imp4 / 12 => resolve_function_ctx::<_, 1, 4, 9>;
    #[kani::stub(std::hash::RandomState::new, crate::stub_random_state)]
    #[kani::stub(alloc::fmt::format, crate::stub_format)]
    cx_resolve_fn_ns1_imp5 / 12 => resolve_function_ctx::<_, 1, 5, 9>;
    #[kani::stub(std::hash::RandomState::new, crate::stub_random_state)]
    #[kani::stub(alloc::fmt::format, crate::stub_format)]
    cx_resolve_fn_ns1_imp6 / 12 => resolve_function_ctx::<_, 1, 6, 9>;
    #[kani::stub(std::hash::RandomState::new, crate::stub_random_state)]
    #[kani::stub(alloc::fmt::format, crate::stub_format)]
    cx_resolve_fn_ns1_imp7 / 12 => resolve_function_ctx::<_, 1, 7, 9>;
    #[kani::stub(std::hash::RandomState::new, crate::stub_random_state)]
    #[kani::stub(alloc::fmt::format, crate::stub_format)]
    cx_resolve_fn_ns2_imp0 / 12 => resolve_function_ctx::<_, 2, 0, 9>;
    #[kani::stub(std::hash::RandomState::new, crate::stub_random_state)]
    #[kani::stub(alloc::fmt::format, crate::stub_format)]
    cx_resolve_fn_ns2_imp1 / 12 => resolve_function_ctx::<_, 2, 1, 9>;
    #[kani::stub(std::hash::RandomState::new, crate::stub_random_state)]
    #[kani::stub(alloc::fmt::format, crate::stub_format)]
    cx_resolve_fn_ns2_imp2 / 12 => resolve_function_ctx::<_, 2, 2, 9>;
    #[kani::stub(std::hash::RandomState::new, crate::stub_random_state)]
    #[kani::stub(alloc::fmt::format, crate::stub_format)]
    cx_resolve_fn_ns2_imp3 / 12 => resolve_function_ctx::<_, 2, 3, 9>;
    #[kani::stub(std::hash::RandomState::new, crate::stub_random_state)]
    #[kani::stub(alloc::fmt::format, crate::stub_format)]
    cx_resolve_fn_ns2_imp4 / 12 => resolve_function_ctx::<_, 2, 4, 9>;
    #[kani::stub(std::hash::RandomState::new, crate::stub_random_state)]
    #[kani::stub(alloc::fmt::format, crate::stub_format)]
    cx_resolve_fn_ns2_imp5 / 12 => resolve_function_ctx::<_, 2, 5, 9>;
    #[kani::stub(std::hash::RandomState::new, crate::stub_random_state)]
    #[kani::stub(alloc::fmt::format, crate::stub_format)]
    cx_resolve_fn_ns2_imp6 / 12 => resolve_function_ctx::<_, 2, 6, 9>;
    #[kani::stub(std::hash::RandomState::new, crate::stub_random_state)]
    #[kani::stub(alloc::fmt::format, crate::stub_format)]
    cx_resolve_fn_ns2_imp7 / 12 => resolve_function_ctx::<_, 2, 7, 9>;
    #[kani::stub(alloc::fmt::format, crate::stub_format)]
    cx_compile_probe / 12 => compile_probe;
    #[kani::stub(std::hash::RandomState::new, crate::stub_random_state)]
    cx_resolve_var_d0 / 18 => resolve_var_nested::<_, 0, 3, 0, 0, 0>;
    #[kani::stub(std::hash::RandomState::new, crate::stub_random_state)]
    cx_resolve_var_d2_min / 18 => resolve_var_nested2::<_, 2, 2, 0, 0, 1, 0>;
    #[kani::stub(std::hash::RandomState::new, crate::stub_random_state)]
    cx_resolve_var_d0_n2 / 18 => resolve_var_nested::<_, 0, 2, 0, 0, 0>;
    #[kani::stub(std::hash::RandomState::new, crate::stub_random_state)]
    cx_resolve_var_d1_n20 / 18 => resolve_var_nested::<_, 1, 2, 0, 0, 0>;
    #[kani::stub(std::hash::RandomState::new, crate::stub_random_state)]
    cx_resolve_var_d1_n21 / 18 => resolve_var_nested::<_, 1, 2, 1, 0, 0>;
    #[kani::stub(std::hash::RandomState::new, crate::stub_random_state)]
    cx_resolve_var_d1 / 18 => resolve_var_nested::<_, 1, 3, 1, 0, 1>;
    #[kani::stub(std::hash::RandomState::new, crate::stub_random_state)]
    cx_resolve_var_d1b / 18 => resolve_var_nested::<_, 1, 2, 2, 0, 2>;
    #[kani::stub(std::hash::RandomState::new, crate::stub_random_state)]
    cx_resolve_var_d2 / 18 => resolve_var_nested::<_, 2, 2, 1, 1, 2>;
    #[kani::stub(std::hash::RandomState::new, crate::stub_random_state)]
    cx_resolve_var_d2b / 18 => resolve_var_nested::<_, 2, 3, 2, 0, 1>;
    #[kani::stub(std::hash::RandomState::new, crate::stub_random_state)]
    cx_scope_end_emits / 8 => scope_end_emits;
    cx_super_depth_7 / 16 => super_depth_all::<_, 7>;
    cx_super_depth_9 / 16 => super_depth_all::<_, 9>;
    cx_super_depth_13 / 20 => super_depth_all::<_, 13>;
}
